(** Leaf functions used by the model of qsmtpd/spf.c: character classes, the
    libc functions the code calls (strtol, strtoul, inet_pton as implemented by
    glibc), lib/match.c:ip4_matchnet/ip6_matchnet, lib/dns_helpers.c:domainvalid.
    Executable definitions only.  A C string is a [bytes] without NUL; reading
    the head of [] is reading the terminator. *)
From Qv Require Import Common.Bytes.
Local Open Scope N_scope.

Definition wspace (c : N) : bool := (c =? 32) || (c =? 9) || (c =? 13) || (c =? 10).
Definition isspace_c (c : N) : bool := (c =? 32) || ((9 <=? c) && (c <=? 13)).
Definition is_xdigit (c : N) : bool := is_digit c || ((65 <=? c) && (c <=? 70)) || ((97 <=? c) && (c <=? 102)).
Definition xdigit_val (c : N) : N :=
  if is_digit c then c - 48 else if (65 <=? c) && (c <=? 70) then c - 55 else c - 87.

Definition ip6_char (c : N) : bool := is_xdigit c || (c =? 58) || (c =? 46).

Definition hd0 (s : bytes) : N := match s with [] => 0 | c :: _ => c end.
(** [*p] is NUL or white space *)
Definition at_end (s : bytes) : bool := match s with [] => true | c :: _ => wspace c end.

Fixpoint take_while (f : N -> bool) (s : bytes) : bytes :=
  match s with
  | c :: t => if f c then c :: take_while f t else []
  | [] => []
  end.
Fixpoint drop_while (f : N -> bool) (s : bytes) : bytes :=
  match s with
  | c :: t => if f c then drop_while f t else s
  | [] => []
  end.

(** strncasecmp(s, p, strlen(p)) == 0 *)
Fixpoint case_prefix (p s : bytes) : bool :=
  match p, s with
  | [], _ => true
  | a :: p', b :: s' => (to_lower a =? to_lower b) && case_prefix p' s'
  | _ :: _, [] => false
  end.
(** strncmp(s, p, strlen(p)) == 0 *)
Fixpoint is_prefix (p s : bytes) : bool :=
  match p, s with
  | [], _ => true
  | a :: p', b :: s' => (a =? b) && is_prefix p' s'
  | _ :: _, [] => false
  end.

Definition mem (c : N) (l : bytes) : bool := existsb (N.eqb c) l.
(** strcasecmp(a, b) == 0 *)
Definition ci_eqb (a b : bytes) : bool := bytes_eqb (map to_lower a) (map to_lower b).

Fixpoint last_opt (s : bytes) : option N :=
  match s with [] => None | [c] => Some c | _ :: t => last_opt t end.
(** the last character is a dot *)
Definition ends_with_dot (s : bytes) : bool := match rev s with c :: _ => c =? 46 | [] => false end.
(** the characters of an address literal as spfip4() / spfip6() scan them *)
Definition ip4_char (c : N) : bool := is_digit c || (c =? 46).

(** part of [s] after its first [c] (strchr(s, c) + 1), None if there is none *)
Fixpoint after_char (c : N) (s : bytes) : option bytes :=
  match s with
  | [] => None
  | x :: t => if x =? c then Some t else after_char c t
  end.

(* ---------------------------------------------------------------- strtol / strtoul, base 10 *)
Fixpoint digits_val (s : bytes) (acc : N) : N * bytes :=
  match s with
  | c :: t => if is_digit c then digits_val t (acc * 10 + (c - 48)) else (acc, s)
  | [] => (acc, [])
  end.

(** common part: optional white space, optional sign, digits.
    Result: None when no digit was found (value 0, endptr = nptr),
    else (negative, magnitude, rest). *)
Definition parse_num (s : bytes) : option (bool * N * bytes) :=
  let s1 := drop_while isspace_c s in
  let '(neg, s2) := if hd0 s1 =? 45 then (true, tl s1)
                    else if hd0 s1 =? 43 then (false, tl s1)
                    else (false, s1) in
  match s2 with
  | c :: _ => if is_digit c then let '(m, r) := digits_val s2 0 in Some (neg, m, r) else None
  | [] => None
  end.

(** strtol(s, &end, 10) on an LP64 machine: (value, end) *)
Definition strtol_c (s : bytes) : Z * bytes :=
  match parse_num s with
  | None => (0%Z, s)
  | Some (neg, m, r) =>
      let v := if neg then Z.max (- Z.of_N m) (- 2 ^ 63)%Z else Z.min (Z.of_N m) (2 ^ 63 - 1)%Z in
      (v, r)
  end.
(** strtoul(s, &end, 10) *)
Definition strtoul_c (s : bytes) : N * bytes :=
  match parse_num s with
  | None => (0, s)
  | Some (neg, m, r) =>
      let v := if 2 ^ 64 <=? m then 2 ^ 64 - 1
               else if neg then (2 ^ 64 - m) mod 2 ^ 64 else m in
      (v, r)
  end.
(** conversion long -> int *)
Definition to_int32 (z : Z) : Z := ((z + 2 ^ 31) mod 2 ^ 32 - 2 ^ 31)%Z.

(* ---------------------------------------------------------------- inet_pton (glibc resolv/inet_pton.c) *)
(** state: finished octets (reversed), current octet, saw_digit *)
Fixpoint pton4_loop (s : bytes) (done : list N) (cur : N) (saw : bool) : option (list N) :=
  match s with
  | [] => if saw then (if Nat.eqb (length done) 3 then Some (rev (cur :: done)) else None)
          else None
  | c :: t =>
      if is_digit c then
        let new := cur * 10 + (c - 48) in
        if saw && (cur =? 0) then None
        else if 255 <? new then None
        else if negb saw && Nat.leb 4 (length done) then None
        else pton4_loop t done new true
      else if (c =? 46) && saw then
        if Nat.leb 3 (length done) then None
        else pton4_loop t (cur :: done) 0 false
      else None
  end.
(** the four octets, or None when inet_pton(AF_INET, s) returns 0 *)
Definition inet_pton4 (s : bytes) : option (list N) := pton4_loop s [] 0 false.

Definition octets_to_N (l : list N) : N := fold_left (fun a b => a * 256 + b) l 0.

(** [tp]: bytes written so far; [colonp]: index of the "::" gap; [curtok]: start of the current group *)
Fixpoint pton6_loop (s : bytes) (tp : list N) (colonp : option nat) (curtok : bytes)
         (seen : nat) (val : N) : option (list N * option nat * nat * N) :=
  match s with
  | [] => Some (tp, colonp, seen, val)
  | c :: t =>
      if is_xdigit c then
        if Nat.eqb seen 4 then None
        else pton6_loop t tp colonp curtok (S seen) (val * 16 + xdigit_val c)
      else if c =? 58 then
        if Nat.eqb seen 0 then
          match colonp with
          | Some _ => None
          | None => pton6_loop t tp (Some (length tp)) t 0 val
          end
        else match t with
             | [] => None
             | _ => if Nat.ltb 16 (length tp + 2) then None
                    else pton6_loop t (tp ++ [val / 256; val mod 256]) colonp t 0 0
             end
      else if (c =? 46) && Nat.leb (length tp + 4) 16 then
        match inet_pton4 curtok with
        | Some o => Some (tp ++ o, colonp, 0%nat, val)
        | None => None
        end
      else None
  end.

Definition inet_pton6 (s : bytes) : option (list N) :=
  match s with
  | [] => None
  | _ =>
    let start := match s with
                 | 58 :: t => match t with 58 :: _ => Some t | _ => None end
                 | _ => Some s
                 end in
    match start with
    | None => None
    | Some s1 =>
      match pton6_loop s1 [] None s1 0 0 with
      | None => None
      | Some (tp, colonp, seen, val) =>
        let tp1 := if Nat.ltb 0 seen then (if Nat.ltb 16 (length tp + 2) then None else Some (tp ++ [val / 256; val mod 256]))
                   else Some tp in
        match tp1 with
        | None => None
        | Some tp2 =>
          match colonp with
          | Some k =>
              if Nat.eqb (length tp2) 16 then None
              else Some (firstn k tp2 ++ repeat 0 (16 - length tp2) ++ skipn k tp2)
          | None => if Nat.eqb (length tp2) 16 then Some tp2 else None
          end
        end
      end
    end
  end.

(* ---------------------------------------------------------------- addresses *)
(** an in6_addr is the 128 bit number in network byte order *)
Definition is_v4mapped (a : N) : bool := (a / 2 ^ 32) =? 65535.
Definition low32 (a : N) : N := a mod 2 ^ 32.

(** lib/match.c *)
Definition ip4_matchnet (ip net : N) (mask : N) : bool :=
  if mask =? 0 then true
  else (low32 ip / 2 ^ (32 - mask)) =? (low32 net / 2 ^ (32 - mask)).
Definition ip6_matchnet (ip net : N) (mask : N) : bool :=
  (ip / 2 ^ (128 - mask)) =? (net / 2 ^ (128 - mask)).

(* ---------------------------------------------------------------- lib/dns_helpers.c:domainvalid *)
(** [h]: index of the current character, [dt]: index of the last dot seen *)
Fixpoint dv_loop (s : bytes) (h : nat) (dt : option nat) : option (option nat) :=
  match s with
  | [] => Some dt
  | c :: t =>
      if negb (is_alpha c || is_digit c || (c =? 46) || (c =? 45)) then None
      else if c =? 46 then
        let lastdt := match dt with Some d => d | None => 0%nat end in
        if Nat.ltb 64 (h - lastdt) then None
        else if hd0 t =? 46 then None
        else dv_loop t (S h) (Some h)
      else dv_loop t (S h) dt
  end.
(** true = the C returns 1 (not a valid fqdn) *)
Definition domain_invalid (host : bytes) : bool :=
  match host with
  | [] => true
  | c :: _ =>
    if c =? 46 then true else
    match dv_loop host 0 None with
    | None => true
    | Some dt =>
        let len := length host in
        if Nat.ltb 255 len then true else
        match dt with
        | None => true
        | Some d =>
            if Nat.ltb (len - d) 3 || Nat.ltb 64 (len - d) then true
            else match last_opt host with
                 | Some l => negb (is_alpha l)
                 | None => true
                 end
        end
    end
  end.

(* ---------------------------------------------------------------- decimal output (lib/fmt.c:ultostr) *)
Fixpoint dec_digits (fuel : nat) (v : N) (acc : bytes) : bytes :=
  match fuel with
  | O => acc
  | S f => let acc' := (48 + v mod 10) :: acc in
           if v / 10 =? 0 then acc' else dec_digits f (v / 10) acc'
  end.
Definition ultostr (v : N) : bytes := dec_digits 40 v [].

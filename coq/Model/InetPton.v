(** Reference implementation of inet_pton(AF_INET / AF_INET6) as glibc 2.36
    (resolv/inet_pton.c) implements it, on the bytes before the terminator.
    It instantiates the oracle of Model/Addr.v for the extracted model and is
    used by the boolean specification checker; the theorems about the parsers
    hold for every oracle.  Tied to libc by the correspondence run only. *)
From Qv Require Import Common.Bytes.

(** inet_pton4: [cur] = *tp *)
Fixpoint pton4_loop (src : bytes) (cur : N) (saw_digit : bool) (octets : nat) : bool :=
  match src with
  | [] => Nat.leb 4 octets
  | ch :: src' =>
      if is_digit ch then
        let new := (cur * 10 + (ch - 48))%N in
        if saw_digit && N.eqb cur 0 then false
        else if N.ltb 255 new then false
        else if saw_digit then pton4_loop src' new true octets
        else if Nat.ltb 4 (S octets) then false
        else pton4_loop src' new true (S octets)
      else if N.eqb ch DOT && saw_digit then
        if Nat.eqb octets 4 then false else pton4_loop src' 0%N false octets
      else false
  end.

Definition pton4_ref (s : bytes) : bool := pton4_loop s 0%N false 0.

Definition hexval (c : N) : option N :=
  if is_digit c then Some (c - 48)%N
  else if N.leb 97 c && N.leb c 102 then Some (c - 87)%N
  else if N.leb 65 c && N.leb c 70 then Some (c - 55)%N
  else None.

(** what follows the loop of inet_pton6: [tp] bytes written, [colonp] set or not, pending digits *)
Definition pton6_finish (tp : nat) (colonp : bool) (xd : nat) : bool :=
  if Nat.ltb 0 xd && Nat.ltb 16 (tp + 2) then false else
  let tp' := if Nat.ltb 0 xd then tp + 2 else tp in
  if colonp then negb (Nat.eqb tp' 16) else Nat.eqb tp' 16.

Fixpoint pton6_loop (src curtok : bytes) (tp : nat) (colonp : bool) (xd : nat) (val : N) : bool :=
  match src with
  | [] => pton6_finish tp colonp xd
  | ch :: src' =>
      match hexval ch with
      | Some d =>
          if Nat.eqb xd 4 then false else
          let val' := (val * 16 + d)%N in
          if N.ltb 65535 val' then false else pton6_loop src' curtok tp colonp (S xd) val'
      | None =>
          if N.eqb ch 58 then
            if Nat.eqb xd 0 then (if colonp then false else pton6_loop src' src' tp true 0 val)
            else match src' with
                 | [] => false
                 | _ => if Nat.ltb 16 (tp + 2) then false else pton6_loop src' src' (tp + 2) colonp 0 0%N
                 end
          else if N.eqb ch DOT && Nat.leb (tp + 4) 16 && pton4_ref curtok then pton6_finish (tp + 4) colonp 0
          else false
      end
  end.

Definition ip6char (c : N) : bool :=
  match hexval c with Some _ => true | None => N.eqb c 58 || N.eqb c DOT end.

Definition pton6_core (s : bytes) : bool :=
  match s with
  | [] => false
  | c :: s' =>
      if N.eqb c 58 then
        match s' with
        | c2 :: _ => if N.eqb c2 58 then pton6_loop s' s' 0 false 0 0%N else false
        | [] => false
        end
      else pton6_loop s s 0 false 0 0%N
  end.

(** the character test is redundant (every byte the loop consumes is a hex digit, ':' or '.');
    it makes the character contract of the oracle immediate *)
Definition pton6_ref (s : bytes) : bool := forallb ip6char s && pton6_core s.

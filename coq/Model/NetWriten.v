(** Model of lib/netio.c:net_writen (reply folding).  Executable definitions only.

    C variables kept: msg (its first [len] bytes; [len] = length of the list),
    off, l, sp (as offset into s[i]), m.  Every constant comes from
    Gen/GenNetio.v, i.e. from the C source of this run.
    Output: the list of netnwrite() calls, oldest first.
    [Crash] = memcpy with a wrapped/oversize length or a store past msg[]. *)
From Qv Require Import Common.Bytes Gen.GenNetio.

(** the last blank of [s] at an offset in [off, off+win), searched the way the
    C does: strchr from [off], then strchr from sp+1 while the hit is inside the
    window.  [i] is the offset of the head of the remaining list. *)
Fixpoint last_sp_scan (rest : bytes) (i : nat) (off win : nat) (found : option nat) : option nat :=
  match rest with
  | [] => found
  | b :: rest' =>
      if Nat.leb (off + win) i then found
      else if Nat.leb off i && N.eqb b SP then last_sp_scan rest' (S i) off win (Some i)
      else last_sp_scan rest' (S i) off win found
  end.

Definition last_sp_window (s : bytes) (off win : nat) : option nat :=
  last_sp_scan s 0 off win None.

(** the [while (l > off + sizeof(msg) - 6)] loop.  [hdr] = msg[0..4) (code and '-'). *)
Fixpoint long_loop (fuel : nat) (hdr s : bytes) (off : nat) (acc : list bytes)
  : Cres (list bytes * nat) :=
  let l := length s in
  if Nat.ltb (off + (NW_MSG - NW_WIN_MARGIN)) l then
    match fuel with
    | O => OutOfFuel
    | S f =>
        (* sp = s[i] + off at the start of every iteration *)
        let sp := match last_sp_window s off (NW_MSG - NW_SCAN_MARGIN) with
                  | Some p => p | None => off end in
        let m0 := sp - off in
        let m := if Nat.eqb m0 0 then NW_MSG - NW_BRUTE_MARGIN else m0 in
        (* memcpy(msg + 4, s[i] + off, m); msg[m+4] = CR; msg[m+5] = LF *)
        if Nat.ltb NW_MSG (NW_HDR + m + 2) then Crash 1
        else if Nat.ltb l (off + m) then Crash 2
        else
          let line := firstn NW_HDR hdr ++ sub s off m ++ CRLF in
          (* off += m - 6 where m was advanced by 4 + 2 *)
          long_loop f hdr s (off + (m + NW_HDR + 2 - NW_OFF_BACK)) (acc ++ [line])
    end
  else Ok (acc, off).

Definition set_nth3 (msg : bytes) (c : N) : bytes := firstn 3 msg ++ [c] ++ skipn 4 msg.

(** one iteration of the [for] loop over s[1..] *)
Definition part_step (msg : bytes) (out : list bytes) (p : bytes) : Cres (bytes * list bytes) :=
  let len := length msg in
  let l := length p in
  if Nat.ltb (NW_MSG - NW_FLUSH_MARGIN) (len + l) then
    let c := nth 3 msg 0%N in
    let msgd := set_nth3 msg DASH in
    if Nat.ltb NW_MSG (len + 2) then Crash 3 else
    let out1 := out ++ [msgd ++ CRLF] in
    let msg4 := firstn NW_LEN_RESET msgd in
    do r <- (if Nat.ltb NW_MSG (l + NW_LONG_ADD)
             then long_loop (S l) msg4 p 0 out1
             else Ok (out1, 0));
    let '(out2, off) := r in
    (* msg[3] = c; memcpy(msg + len, s[i] + off, l - off) *)
    if Nat.ltb NW_MSG (NW_LEN_RESET + (l - off)) then Crash 4 else
    Ok (set_nth3 msg4 c ++ sub p off (l - off), out2)
  else
    if Nat.ltb NW_MSG (len + l) then Crash 5 else
    Ok (msg ++ p, out).

Fixpoint parts_loop (msg : bytes) (out : list bytes) (ps : list bytes) : Cres (bytes * list bytes) :=
  match ps with
  | [] => Ok (msg, out)
  | p :: ps' => do r <- part_step msg out p; let '(msg', out') := r in parts_loop msg' out' ps'
  end.

(** net_writen(s) with s[0] = [s0], s[1..] = [parts].  The two asserts on
    strlen(s[0]) are part of the contract (compiled out with NDEBUG): outside
    it the first memcpy may overflow msg[]. *)
Definition net_writen (s0 : bytes) (parts : list bytes) : Cres (list bytes) :=
  if Nat.ltb NW_MSG (length s0) then Crash 6 else
  do r <- parts_loop s0 [] parts;
  let '(msg, out) := r in
  if Nat.ltb NW_MSG (length msg + 2) then Crash 7 else
  Ok (out ++ [msg ++ CRLF]).

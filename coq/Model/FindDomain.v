(** Model of lib/control.c:finddomain (rcpthosts-style list lookup in a mapped file).
    Executable definitions only.

    The mapping is the byte list [buf]; [size] is its length.  A pointer into
    the mapping ([cur]) is represented by the suffix of [buf] it points at, so
    [size - pos] is the length of that suffix, [cur < buf + size] is "suffix not
    empty" and a read of [cur[i]] beyond the suffix is a read outside the
    mapping: [Crash].  The C string [domain] is the byte list up to its first
    NUL; reading its terminator yields 0.

    All character constants come from Gen/GenControl.v (regenerated from the C
    of this run).  [finddomain] transcribes the code with the F-C16-1 fix
    (bounded newline skip); [finddomain_orig] keeps the unbounded skip of the
    unpatched code so that the over-read stays on record. *)
From Qv Require Import Common.Bytes Gen.GenControl.

Definition rd (cur : bytes) (i : nat) : Cres N :=
  match nth_error cur i with
  | Some b => Ok b
  | None => Crash 1          (* read outside the mapping *)
  end.

(** strlen / the C string inside a field *)
Fixpoint cstr (d : bytes) : bytes :=
  match d with
  | [] => []
  | b :: d' => if N.eqb b 0 then [] else b :: cstr d'
  end.

(** memchr(cur, c, n): offset of the first [c] among the first [n] bytes *)
Fixpoint memchr (c : N) (cur : bytes) (n : nat) : Cres (option nat) :=
  match n with
  | O => Ok None
  | S n' =>
      match cur with
      | [] => Crash 2
      | b :: cur' =>
          if N.eqb b c then Ok (Some 0)
          else do r <- memchr c cur' n'; Ok (option_map S r)
      end
  end.

(** while (len && (cur[len-1] == ' ' || cur[len-1] == '\t')) len--; *)
Fixpoint strip_len (cur : bytes) (len : nat) : Cres nat :=
  match len with
  | O => Ok 0
  | S l' =>
      do c <- rd cur l';
      if N.eqb c FD_BLANK_A || N.eqb c FD_BLANK_B then strip_len cur l' else Ok len
  end.

(** strncasecmp(a, b, n) == 0, with [a] a C string (list without its
    terminator) and [b] a pointer into the mapping.  glibc, C locale: compare
    tolower() of both bytes, stop at a difference or when both are NUL. *)
Fixpoint strncasecmp_eq (a b : bytes) (n : nat) : Cres bool :=
  match n with
  | O => Ok true
  | S n' =>
      match b with
      | [] => Crash 3
      | y :: b' =>
          match a with
          | [] => (* terminator of a: c1 = 0 *)
              Ok (N.eqb 0 (to_lower y))
          | x :: a' =>
              if N.eqb (to_lower x) (to_lower y)
              then (if N.eqb (to_lower x) 0 then Ok true else strncasecmp_eq a' b' n')
              else Ok false
          end
      end
  end.

(** the body of [if ( *cur != '#') { ... }]: does the line of length [len0] at [cur] match? *)
Definition line_hit (cur : bytes) (len0 : nat) (dom : bytes) : Cres bool :=
  let dl := length dom in
  do c0 <- rd cur 0;
  if N.eqb c0 FD_COMMENT then Ok false else
  do len <- strip_len cur len0;
  if Nat.eqb len 0 then Ok false else
  if N.eqb c0 FD_DOT then
    (if Nat.ltb len dl then strncasecmp_eq (skipn (dl - len) dom) cur len else Ok false)
  else
    (if Nat.eqb dl len then strncasecmp_eq dom cur len else Ok false).

(** while ((cur < buf + size) && ( *cur == '\n')) cur++;   ([n] = bytes left, fuel) *)
Fixpoint skip_lf (cur : bytes) : bytes :=
  match cur with
  | [] => []
  | b :: cur' => if N.eqb b FD_LF then skip_lf cur' else cur
  end.

(** the unpatched loop: while ( *cur == '\n') cur++; *)
Fixpoint skip_lf_orig (cur : bytes) : Cres bytes :=
  match cur with
  | [] => Crash 4            (* *cur with cur == buf + size *)
  | b :: cur' => if N.eqb b FD_LF then skip_lf_orig cur' else Ok cur
  end.

(** do { ... } while (cur); one unit of fuel per iteration *)
Fixpoint fd_loop (fuel : nat) (cur dom : bytes) : Cres bool :=
  match fuel with
  | O => OutOfFuel
  | S fuel' =>
      do cure <- memchr FD_LF cur (length cur);
      let len0 := match cure with Some k => k | None => length cur end in
      do hit <- line_hit cur len0 dom;
      if hit then Ok true else
      match cure with
      | None => Ok false
      | Some k =>
          let cur' := skip_lf (skipn k cur) in
          match cur' with
          | [] => Ok false                (* pos == size: cur = NULL *)
          | _ => fd_loop fuel' cur' dom
          end
      end
  end.

Definition finddomain (buf domain : bytes) : Cres bool :=
  match buf with
  | [] => Ok false                        (* size <= 0 *)
  | _ => fd_loop (S (length buf)) buf (cstr domain)
  end.

(** -------- the code before the fix (kept for the record of F-C16-1) -------- *)
Fixpoint fd_loop_orig (fuel : nat) (cur dom : bytes) : Cres bool :=
  match fuel with
  | O => OutOfFuel
  | S fuel' =>
      do cure <- memchr FD_LF cur (length cur);
      let len0 := match cure with Some k => k | None => length cur end in
      do hit <- line_hit cur len0 dom;
      if hit then Ok true else
      match cure with
      | None => Ok false
      | Some k => do cur' <- skip_lf_orig (skipn k cur); fd_loop_orig fuel' cur' dom
      end
  end.

Definition finddomain_orig (buf domain : bytes) : Cres bool :=
  fd_loop_orig (S (length buf)) buf (cstr domain).

(** -------- lib/match.c:matchdomain(domain, dl, expr): entries of lists that were loaded
    with loadlistfd (both arguments are C strings; dl = strlen(domain) at every call site).
    strcasecmp == 0 on two C strings: compare tolower() byte by byte up to the terminators. *)
Fixpoint strcasecmp_eq (a b : bytes) : bool :=
  match a, b with
  | [], [] => true
  | x :: a', y :: b' => if N.eqb (to_lower x) (to_lower y) then strcasecmp_eq a' b' else false
  | _, _ => false
  end.

Definition matchdomain (domain expr : bytes) : bool :=
  let dom := cstr domain in
  let ex := cstr expr in
  let dl := length dom in
  let el := length ex in
  if Nat.ltb dl el then false
  else if N.eqb (hd 0%N ex) MD_DOT then strcasecmp_eq (skipn (dl - el) dom) ex
  else if Nat.eqb el dl then strcasecmp_eq dom ex
  else false.

(** Environment of the SPF evaluator: the SMTP session data it reads from
    xmitstat, the resolver entry points it calls (as oracles: any functions of
    these types), the query events it causes, and validate_domain() which is
    shared by the ptr mechanism and the %{p} macro.  Executable definitions only. *)
From Qv Require Import Common.Bytes Gen.GenSpf Model.SpfBase.
Local Open Scope N_scope.

(** what the session contributes (struct xmitstat, heloname) *)
Record sess := {
  s_client : N;          (* xmitstat.sremoteip as 128 bit number *)
  s_iptext : bytes;      (* inet_ntop() of it (AF_INET form for v4-mapped addresses) *)
  s_mailfrom : bytes;    (* xmitstat.mailfrom: empty, or local@domain *)
  s_helostr : bytes;     (* xmitstat.helostr *)
  s_remotehost : bytes;  (* xmitstat.remotehost *)
  s_heloname : bytes;    (* heloname *)
  s_now : N              (* time(NULL), for %{t} *)
}.
Definition HELOSTR (s : sess) : bytes :=
  match s_helostr s with [] => s_remotehost s | h => h end.
Definition client_v4 (s : sess) : bool := is_v4mapped (s_client s).

(** answers of the resolver entry points *)
Inductive dnserr := ELocal | ETemp | EPerm.                       (* DNS_ERROR_LOCAL / _TEMP / _PERM *)
Inductive txterr := TENoent | TETemp | TEInval | TEOther.        (* errno classes tested after dnstxt_records() < 0 *)
Inductive txtans := TxtErr (e : txterr) | TxtRecs (l : list bytes).
Inductive addrans := AErr (e : dnserr) | AList (l : list N).
Inductive mxans := MxErr (e : dnserr) | MxNoHost | MxNull | MxList (l : list (N * list N)).
Inductive nameans := NErr (e : dnserr) | NList (l : list bytes).

Record dns := {
  d_txt : bytes -> txtans;       (* dnstxt_records *)
  d_a : bytes -> addrans;        (* ask_dnsa *)
  d_aaaa : bytes -> addrans;     (* ask_dnsaaaa *)
  d_mx : bytes -> mxans;         (* ask_dnsmx *)
  d_name : N -> nameans          (* ask_dnsname *)
}.

(** one call of a resolver entry point *)
Inductive qev := QT (n : bytes) | QA (n : bytes) | Q6 (n : bytes) | QM (n : bytes) | QN (ip : N).

Definition dnserr_code (e : dnserr) : Z :=
  match e with ELocal => (-1)%Z | ETemp => (-2)%Z | EPerm => (-3)%Z end.

Section Env.
Variable D : dns.
Variable X : sess.

(** ask_dnsa / ask_dnsaaaa depending on the address family of the client *)
Definition ask_client_family (name : bytes) : addrans * qev :=
  if client_v4 X then (d_a D name, QA name) else (d_aaaa D name, Q6 name).

(** the loop of validate_domain() over the first names: keeps those that resolve to the client *)
Fixpoint vd_loop (names : list bytes) : list bytes * list qev :=
  match names with
  | [] => ([], [])
  | d :: rest =>
      let '(ans, q) := ask_client_family d in
      let '(vs, qs) := vd_loop rest in
      match ans with
      | AList l => if existsb (N.eqb (s_client X)) l then (d :: vs, q :: qs) else (vs, q :: qs)
      | AErr _ => (vs, q :: qs)
      end
  end.

(** validate_domain(): Ok list (possibly empty = return 0) or the negative return value *)
Definition validate_domain : (dnserr + list bytes) * list qev :=
  match d_name D (s_client X) with
  | NErr e => (inl e, [QN (s_client X)])
  | NList names =>
      let '(vs, qs) := vd_loop (firstn SPF_PTR_LIMIT names) in
      (inr vs, QN (s_client X) :: qs)
  end.

End Env.

(** Qremote's connect phase for property C04: qremote/conn_mx.c:connect_mx() and the part of
    qremote/qremote.c:main() around it, up to the point where Model/QrEnvelope.v takes over.
    Executable definitions only.

    Everything from the greeting on -- netget(0), the multi-line greeting, quitmsg paths, the EHLO/HELO
    exchange of greeting(), esmtp_check_extension(), the STARTTLS decision with OpenSSL as an oracle,
    the loop over the MX entries -- is the literal model of property C18, Model/TlsClient.v, reused
    unchanged.  This file adds what that model has no vocabulary for and what C04 needs:

    * a server that accepts the connection and then stays silent: net_read(0) fails with ETIMEDOUT
      where TlsClient's network can only end in read() = 0 (ECONNRESET).  connect_mx() tells the two
      apart in exactly one place, the switch on the result of its first netget(0) ([default:] exits
      the process); everywhere else (rest of the greeting, greeting(), tls_init(), quitmsg()) both
      errors take the same branch (quitmsg_if_net() closes the socket for either, the loops stop on any
      negative result), so inside TlsClient's functions the silent end is the closed end.  That this
      holds for the C is checked by the correspondence run (silent servers at every position);
    * a failing dup2(socketd, 0);
    * whether these two exits write a report first ([fx_err], [fx_dup]: from the C source of this
      run via Gen/GenQremote.v; [run_q] is the code that exists).

    Not modelled: read errors other than timeout and close (EIO ...: netget(0) itself calls
    quitmsg() then), malloc failure, several addresses per MX entry. *)
From Qv Require Import Common.Bytes Gen.GenNetio Gen.GenQremote Gen.GenStarttls Model.NetRead Model.TlsClient.
Local Open Scope bool_scope.

Record qconn := mkQ {
  q_conn : conn;          (* the connection attempt as TlsClient sees it *)
  q_silent : bool;        (* when the clear text is used up the server stays silent (poll() times out) *)
  q_dup2 : bool           (* dup2(socketd, 0) fails *)
}.
Record qcase := mkQC {
  q_route : bool;
  q_conns : list qconn
}.

(** netget(0) where connect_mx() calls it first *)
Definition netget_first (silent : bool) (s : st) : res Z :=
  rdo (v, s1) <- netget0 s;
  Ret (if silent && Z.eqb v (neg ST_ECONNRESET) then neg ST_ETIMEDOUT else v) s1.

(** [default:] of the switch: (report,) net_conn_shutdown(shutdown_abort) *)
Definition conn_err_exit {A} (fx_err : bool) (v : Z) (s : st) : res A :=
  shutdown_abort (if fx_err
                  then report (if Z.eqb v (neg ST_ETIMEDOUT) then QR_RPT_CONN_TIMEOUT else QR_RPT_CONN_ERR) s
                  else s).

(** one pass through the body of the do-while of connect_mx() *)
Definition conn_iter_q (fx_err fx_dup : bool) (k : nat) (qc : qconn) (tlsa : list (N * Z)) (s : st) : res (option Z) :=
  let c := q_conn qc in
  let s0 := log (EvConn k) (open_conn c s) in
  if q_dup2 qc then
    (* if (dup2(socketd, 0) < 0) *)
    shutdown_abort (if fx_dup then report QR_RPT_CONN_DUP2 s0 else s0)
  else
    match netget_first (q_silent qc) s0 with
    | Ret v s1 =>
        if (v <? 0)%Z && negb (Z.eqb v (neg ST_ECONNRESET)) && negb (Z.eqb v (neg ST_EINVAL))
        then conn_err_exit fx_err v s1
        else conn_iter k c tlsa s        (* every other case of the loop body: TlsClient's transcription *)
    | _ => conn_iter k c tlsa s
    end.

Fixpoint connect_mx_q (fx_err fx_dup : bool) (all : list conn) (k : nat) (todo : list qconn) (s : st)
  : res (option (conn * Z)) :=
  let s := if asks_tlsa all then log (EvTlsa 0) s else s in
  match todo with
  | [] => Ret None s                        (* tryconn(): -ENOENT *)
  | qc :: todo' =>
      rdo (r, s1) <- conn_iter_q fx_err fx_dup k qc (tlsa_eff all) s;
      match r with
      | Some g => Ret (Some (q_conn qc, g)) s1
      | None => connect_mx_q fx_err fx_dup all (S k) todo' s1
      end
  end.

Definition tcase_of (k : qcase) : tcase := mkCase (q_route k) (map q_conn (q_conns k)).

(** how the connect phase ends *)
Inductive phase_end :=
| PExited (s : st)                       (* the process exited inside connect_mx() or right behind it *)
| PConnected (c : conn) (ext : Z) (s : st)   (* send_envelope() is called with smtpext = ext *)
| PStuck (s : st).

(** main() from getmxlist() to the call of send_envelope() *)
Definition connect_phase (fx_err fx_dup : bool) (k : qcase) : phase_end :=
  match connect_mx_q fx_err fx_dup (map q_conn (q_conns k)) 0 (q_conns k) (init_st (tcase_of k)) with
  | Ret None s =>
      (* i < 0: write_status("Z4.4.2 can't connect to any server"); net_conn_shutdown(shutdown_abort) *)
      match @shutdown_abort unit (report ST_RPT_NOCONN s) with
      | Exit s' => PExited s' | Ret _ s' => PStuck s' | Stuck s' => PStuck s'
      end
  | Ret (Some (c, g)) s =>
      if ST_PINNED_NEEDS_TLS && negb (s_ssl s) && pinned c then
        match @shutdown_clean unit (report ST_RPT_PINNED s) with
        | Exit s' => PExited s' | Ret _ s' => PStuck s' | Stuck s' => PStuck s'
        end
      else PConnected c g s
  | Exit s => PExited s
  | Stuck s => PStuck s
  end.

(** the whole run of the harness: behind a connection the stand-in for send_envelope() of
    harness/tlssw_h.c (writes MAIL FROM:<>, fails; main() shuts down cleanly) *)
Definition run_q_with (fx_err fx_dup : bool) (k : qcase) : res unit :=
  match connect_phase fx_err fx_dup k with
  | PExited s => Exit s
  | PConnected c g s => shutdown_clean (nwrite MAIL_CMD (log (EvMail (s_ssl s) (Z.to_N g)) s))
  | PStuck s => Stuck s
  end.

(** the code that exists *)
Definition run_q (k : qcase) : res unit := run_q_with QR_CONN_ERR_REPORTS QR_CONN_DUP2_REPORTS k.

(* ------------------------------------------------------------------ the code before fixes/C04-loop-long-fatal.diff *)
(** Only for the witness of the defect (F-C04-8): net_read(0), quitmsg() and net_conn_shutdown(shutdown_clean)
    as they were while loop_long() read with fatal hard-wired to 1 -- TlsClient's read_loop2, net_read2,
    nread, quit_loop, quitmsg, shutdown_clean with [RDie] where [long_end] stands now. *)
Fixpoint read_loop2_old (fuel : nat) (buf : bytes) (e : env) : ritem * rstate :=
  match fuel with
  | O => (RStuck, {| inn := []; en := e |})
  | S f =>
      match readinput e (LINEINBUF - length buf) with
      | None => (RReset, {| inn := []; en := e |})
      | Some (d, e') =>
          let buf' := buf ++ d in
          let ro := length buf' in
          let '(p, valid) := find_eol buf' in
          let retry := match p with
                       | Some p' => negb valid && Nat.eqb p' ro && Nat.ltb ro (LINEINBUF - 1)
                                    && N.eqb (nth (p' - 1) buf' 0%N) CR
                       | None => false end in
          let p := if retry then None else p in
          match p with
          | None =>
              if Nat.ltb ro (LINEINBUF - 1) then read_loop2_old f buf' e'
              else
                match loop_long (S (length (rest e'))) e' false with
                | (Some i, e'') => (R2big, {| inn := i; en := e'' |})
                | (None, e'') => (RDie, {| inn := []; en := e'' |})
                end
          | Some p' =>
              if valid then (RLine (firstn (p' - 2) buf'), {| inn := skipn p' buf'; en := e' |})
              else if Nat.eqb p' (LINEINBUF - 1) && N.eqb (nth (p' - 1) buf' 0%N) CR then
                match loop_long (S (length (rest e'))) e' true with
                | (Some i, e'') => (R2big, {| inn := i; en := e'' |})
                | (None, e'') => (RDie, {| inn := []; en := e'' |})
                end
              else (RInval, {| inn := skipn p' buf'; en := e' |})
          end
      end
  end.

Definition net_read2_old (s : rstate) : ritem * rstate :=
  match inn s with
  | [] => read_loop2_old (S (length (rest (en s)))) [] (en s)
  | _ =>
      let '(p, valid) := find_eol (inn s) in
      match p with
      | None => read_loop2_old (S (length (rest (en s)))) (inn s) (en s)
      | Some p' =>
          if valid then (RLine (firstn (p' - 2) (inn s)), {| inn := skipn p' (inn s); en := en s |})
          else if N.eqb (nth (p' - 1) (inn s) 0%N) CR && Nat.eqb p' (length (inn s))
          then read_loop2_old (S (length (rest (en s)))) (inn s) (en s)
          else (RInval, {| inn := skipn p' (inn s); en := en s |})
      end
  end.

Definition nread_old (s0 : st) : res ritem :=
  let s := purge s0 in
  let '(it, r) := net_read2_old {| inn := s_inn s; en := chan s |} in
  let s1 := upd_net s (inn r) (en r) in
  match it with
  | RDie => Exit (die s1)
  | RStuck => Stuck s1
  | _ => Ret it (log (EvR (s_ssl s) it (length (inn r) + length (rest (en r)))) s1)
  end.

Fixpoint quit_loop_old (fuel : nat) (s : st) : res unit :=
  match fuel with
  | O => Stuck s
  | S f =>
      rdo (it, s1) <- nread_old s;
      match it with
      | RLine l =>
          if Nat.leb 4 (length l) && N.eqb (nth 3 l 0%N) DASH then quit_loop_old f (set_linein l s1)
          else Ret tt (set_linein l s1)
      | _ => Ret tt s1
      end
  end.

Definition quitmsg_old (s : st) : res unit :=
  let s0 := nwrite ST_CMD_QUIT s in
  rdo (_, s1) <- quit_loop_old (S (avail s0)) s0;
  let s2 := set_conn false false s1 in
  Ret tt (if ST_QUITMSG_RESETS_ROUTE then set_route false false s2 else s2).

Definition shutdown_clean_old {A} (s : st) : res A :=
  if s_sock s then
    match quitmsg_old s with
    | Ret _ s1 => Exit s1
    | Exit s1 => Exit s1
    | Stuck s1 => Stuck s1
    end
  else Exit s.

(** Literal model of find_servercert() (qsmtpd/starttls.c): the function that builds the
    certificate / key file names in two static 76-byte arrays and decides, once per EHLO,
    whether STARTTLS is announced.  Definitions only.

    certfilename and keyfilenamebuf are lists of exactly SC_BUF bytes; every store,
    strncpy, memcpy outside the array and every read of a C string that has no
    terminator inside the array is [Crash] (the C would touch neighbouring statics).
    faccessat() is the oracle [ex] on the name relative to control/.
    SC_OLDLEN_CONST (regenerated from the C) selects where the suffix goes:
    behind the constant prefix (the code as fixed) or behind strlen(certfilename) (the
    code as found: the previous call's suffix is still there). *)
From Qv Require Import Common.Bytes Gen.GenServerCert.

Record scstate := { cert : bytes; key : bytes; usekey : bool (* keyfilename == keyfilenamebuf *) }.

Definition zeros (n : nat) : bytes := repeat 0%N n.
Definition sc_init : scstate :=
  {| cert := SC_CERT ++ zeros (SC_BUF - length SC_CERT); key := SC_KEY ++ zeros (SC_BUF - length SC_KEY); usekey := false |}.

(** index of the first NUL *)
Fixpoint strlen_from (b : bytes) : option nat :=
  match b with
  | [] => None
  | x :: r => if N.eqb x 0 then Some 0 else option_map S (strlen_from r)
  end.

(** the C string that starts at [off] *)
Definition cstr_at (buf : bytes) (off : nat) : Cres bytes :=
  match strlen_from (skipn off buf) with
  | Some n => Ok (firstn n (skipn off buf))
  | None => Crash 3%N                              (* no terminator inside the array *)
  end.

Definition store (buf : bytes) (i : nat) (v : N) : Cres bytes :=
  if Nat.ltb i (length buf) then Ok (firstn i buf ++ v :: skipn (S i) buf) else Crash 1%N.

(** strncpy(buf + off, src, n): exactly n bytes are written; [src] is a C string without NUL *)
Definition strncpy_at (buf : bytes) (off : nat) (src : bytes) (n : nat) : Cres bytes :=
  if Nat.leb (off + n) (length buf)
  then Ok (firstn off buf ++ firstn n src ++ zeros (n - length src) ++ skipn (off + n) buf)
  else Crash 2%N.

(** memcpy(keyfilenamebuf + oldlen - 1, certfilename + oldlen, sizeof(certfilename) - oldlen) *)
Definition memcpy_key (k c : bytes) (oldlen : nat) : Cres bytes :=
  if Nat.leb 1 oldlen && Nat.leb oldlen SC_BUF && Nat.leb (length c) SC_BUF && Nat.leb SC_BUF (length c) && Nat.leb SC_BUF (length k)
  then let n := SC_BUF - oldlen in
       Ok (firstn (oldlen - 1) k ++ firstn n (skipn oldlen c) ++ skipn (oldlen - 1 + n) k)
  else Crash 4%N.

Definition DOTC : N := 46%N.
Definition COLON : N := 58%N.

(** a certificate file was found under the name in [c]: memcpy of its suffix into the key name, second faccessat *)
Definition sc_found (ex : bytes -> bool) (s : scstate) (oldlen : nat) (c : bytes) (probes : list bytes)
  : Cres (Z * list bytes * scstate) :=
  do k <- memcpy_key (key s) c oldlen;
  do kn <- cstr_at k (length SC_DIR);
  Ok (0%Z, probes ++ [kn], {| cert := c; key := k; usekey := usekey s || ex kn |}).

(** the name with the address only, then the general name *)
Definition sc_rest (ex : bytes -> bool) (s : scstate) (oldlen : nat) (c : bytes) (probes : list bytes)
  : Cres (Z * list bytes * scstate) :=
  do n2 <- cstr_at c (length SC_DIR);
  if ex n2 then sc_found ex s oldlen c (probes ++ [n2])
  else
    do c6 <- store c oldlen 0%N;
    do n3 <- cstr_at c6 (length SC_DIR);
    if ex n3 then
      do kn <- cstr_at (key s) (length SC_DIR);
      Ok (0%Z, probes ++ [n2; n3; kn], {| cert := c6; key := key s; usekey := usekey s || ex kn |})
    else Ok ((-1)%Z, probes ++ [n2; n3], {| cert := c6; key := key s; usekey := usekey s |}).

(** result: return value, the names handed to faccessat() in order, the arrays afterwards *)
Definition find_servercert_gen (constlen : bool) (ex : bytes -> bool) (ip : bytes) (port : option bytes) (s : scstate)
  : Cres (Z * list bytes * scstate) :=
  do oldlen <- (if constlen then Ok (length SC_CERT)
                else match strlen_from (cert s) with Some n => Ok n | None => Crash 3%N end);
  do c1 <- store (cert s) oldlen DOTC;
  if Nat.ltb SC_BUF (oldlen + 1) then Crash 2%N           (* sizeof(certfilename) - oldlen - 1 wraps *)
  else
  do c2 <- strncpy_at c1 (oldlen + 1) ip (SC_BUF - oldlen - 1);
  match port with
  | Some p =>
      let iplen := oldlen + 1 + length ip in
      do c3 <- store c2 iplen COLON;
      if Nat.ltb SC_BUF (iplen + 1) then Crash 2%N
      else
      do c4 <- strncpy_at c3 (iplen + 1) p (SC_BUF - iplen - 1);
      do n1 <- cstr_at c4 (length SC_DIR);
      if ex n1 then sc_found ex s oldlen c4 [n1]
      else
        do c5 <- store c4 iplen 0%N;
        sc_rest ex s oldlen c5 [n1]
  | None => sc_rest ex s oldlen c2 []
  end.

(** the code as it is in the tree *)
Definition find_servercert := find_servercert_gen SC_OLDLEN_CONST.

(** a sequence of calls (one per EHLO) with the same address and port; the oracle may change between calls *)
Fixpoint calls_gen (constlen : bool) (exs : list (bytes -> bool)) (ip : bytes) (port : option bytes) (s : scstate)
  : Cres (list (Z * list bytes * bytes * bytes)) :=
  match exs with
  | [] => Ok []
  | ex :: r =>
      do res <- find_servercert_gen constlen ex ip port s;
      let '(rc, probes, s') := res in
      do cn <- cstr_at (cert s') 0;
      do kn <- cstr_at (if usekey s' then key s' else cert s') 0;
      do more <- calls_gen constlen r ip port s';
      Ok ((rc, probes, cn, kn) :: more)
  end.
Definition calls := calls_gen SC_OLDLEN_CONST.

(** ---------- what the function is for ---------- *)
Definition CERTN : bytes := skipn (length SC_DIR) SC_CERT.      (* "servercert.pem" *)
Definition KEYN : bytes := skipn (length SC_DIR) SC_KEY.        (* "serverkey.pem" *)
Definition sfx_ip (ip : bytes) : bytes := DOTC :: ip.
Definition sfx_ipport (ip p : bytes) : bytes := DOTC :: ip ++ COLON :: p.

(** the certificate names tried, most specific first *)
Definition candidates (ip : bytes) (port : option bytes) : list bytes :=
  match port with Some p => [sfx_ipport ip p] | None => [] end ++ [sfx_ip ip; []].

(** 0 iff one of them exists *)
Definition servercert_spec (ex : bytes -> bool) (ip : bytes) (port : option bytes) : Z :=
  if existsb (fun sfx => ex (CERTN ++ sfx)) (candidates ip port) then 0%Z else (-1)%Z.

(** the suffix of the first candidate that exists *)
Definition chosen (ex : bytes -> bool) (ip : bytes) (port : option bytes) : option bytes :=
  find (fun sfx => ex (CERTN ++ sfx)) (candidates ip port).

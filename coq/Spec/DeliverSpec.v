(** C07 — the receiver's view, as an executable checker run on what the C code wrote
    (the stream of octets after the 354).  Independent of the models: it undoes, in the order a
    receiver would, the dot-stuffing, the header folding Qremote introduced, and the
    quoted-printable encoding Qremote declared, and compares with the normalised original.

    Domain ([c07_domain]): the property quantifies over messages whose declared transfer encoding
    is absent, 7bit, 8bit or binary; multipart messages are left to the C06 checker and to the
    model/C agreement here (result "pre"). *)
From Qv Require Import Common.Bytes Gen.GenQrdata Spec.SmtpDataSpec.

(** no recoding: byte for byte the dot-stuffed normalisation followed by the terminator *)
Definition spec_ok_C07_plain (m stream : bytes) : bool := bytes_eqb stream (plain_wire m).

(* ------------------------------------------------------------------ small text helpers *)
Definition lower (l : bytes) : bytes := map to_lower l.

Fixpoint prefix_b (p l : bytes) : bool :=
  match p, l with
  | [], _ => true
  | x :: p', y :: l' => N.eqb x y && prefix_b p' l'
  | _ :: _, [] => false
  end.

Fixpoint contains_b (needle hay : bytes) : bool :=
  match hay with
  | [] => prefix_b needle []
  | _ :: t => prefix_b needle hay || contains_b needle t
  end.

Definition is_blank_c (c : N) : bool := N.eqb c SP || N.eqb c HT.
Definition is_cont (l : bytes) : bool := match l with c :: _ => is_blank_c c | [] => false end.

Fixpoint drop_blanks (l : bytes) : bytes :=
  match l with
  | c :: r => if is_blank_c c then drop_blanks r else l
  | [] => []
  end.
Definition trim (l : bytes) : bytes := rev (drop_blanks (rev (drop_blanks l))).

(** header lines (before the first empty line) and, if there is an empty line, the lines behind it *)
Fixpoint split_hdr (ls : list bytes) : list bytes * option (list bytes) :=
  match ls with
  | [] => ([], None)
  | l :: rest =>
      match l with
      | [] => ([], Some rest)
      | _ => let (h, b) := split_hdr rest in (l :: h, b)
      end
  end.

(** remove every field whose lower-cased first line starts with [name], with its continuation lines;
    returns the number of fields removed, the first line of the last one, and what is left *)
Fixpoint drop_field (name : bytes) (skipping : bool) (ls : list bytes) : nat * bytes * list bytes :=
  match ls with
  | [] => (0, [], [])
  | l :: rest =>
      if skipping && is_cont l then drop_field name true rest
      else if prefix_b name (lower l) then
        let '(n, v, r) := drop_field name true rest in (S n, match n with O => l | _ => v end, r)
      else let '(n, v, r) := drop_field name false rest in (n, v, l :: r)
  end.

(** remove the two consecutive lines [l1], [l2] *)
Fixpoint drop_marker (l1 l2 : bytes) (ls : list bytes) : option (list bytes) :=
  match ls with
  | a :: rest =>
      match rest with
      | b :: rest' =>
          if bytes_eqb a l1 && bytes_eqb b l2 then Some rest'
          else match drop_marker l1 l2 rest with Some r => Some (a :: r) | None => None end
      | [] => None
      end
  | [] => None
  end.

(** [x] is [o] with "CRLF SP" inserted at some places (the folding Qremote introduces) *)
Fixpoint unfolds_to (x o : bytes) {struct x} : bool :=
  match x with
  | [] => match o with [] => true | _ => false end
  | c :: xt =>
      (match o with oc :: ot => N.eqb c oc && unfolds_to xt ot | [] => false end)
      || (match xt with
          | c2 :: c3 :: x' => N.eqb c CR && N.eqb c2 LF && N.eqb c3 SP && unfolds_to x' o
          | _ => false
          end)
  end.

Definition CTE_NAME : bytes :=
  [99; 111; 110; 116; 101; 110; 116; 45; 116; 114; 97; 110; 115; 102; 101; 114; 45; 101; 110; 99; 111; 100; 105; 110; 103; 58]%N.
  (* "content-transfer-encoding:" *)
Definition MULTIPART_NAME : bytes := [109; 117; 108; 116; 105; 112; 97; 114; 116; 47]%N.    (* "multipart/" *)
Definition V_7BIT : bytes := [55; 98; 105; 116]%N.
Definition V_8BIT : bytes := [56; 98; 105; 116]%N.
Definition V_BINARY : bytes := [98; 105; 110; 97; 114; 121]%N.

(** the message is one the property speaks about (for the recoding path) *)
Definition c07_domain (m : bytes) : bool :=
  let (hdr, _) := split_hdr (split_lines m) in
  let '(n, cte, _) := drop_field CTE_NAME false hdr in
  negb (existsb (fun l => contains_b MULTIPART_NAME (lower l)) hdr)
  && match n with
     | O => true
     | S O => let v := trim (skipn (length CTE_NAME) (lower cte)) in
              bytes_eqb v V_7BIT || bytes_eqb v V_8BIT || bytes_eqb v V_BINARY
     | _ => false
     end.

(** the two lines Qremote inserts when it recodes a body *)
Definition marker_lines (helo : bytes) : option (bytes * bytes) :=
  match crlf_lines (RECODED_STR ++ helo ++ CRLF) with
  | Some [l1; l2] => Some (l1, l2)
  | _ => None
  end.

(** one entity (a non-multipart message, or one part of a multipart message) that went through send_qp:
    [ol] = its lines in the original, [ws] = its lines on the wire (dots still stuffed) *)
Definition entity_ok (l1 l2 : bytes) (ol ws : list bytes) : bool :=
  let (xh, xb) := split_hdr (map unstuff_line ws) in
  let (_, wb) := split_hdr ws in       (* the body as it is on the wire, dots still stuffed *)
  let (oh, ob) := split_hdr ol in
  let obody := match ob with Some b => join_crlf b | None => [] end in
  match drop_marker l1 l2 xh with
  | Some xh' =>
      (* body declared quoted-printable: header without the old Content-Transfer-Encoding field *)
      let '(_, _, oh') := drop_field CTE_NAME false oh in
      unfolds_to (join_crlf xh') (join_crlf oh')
      && match xb with
         | Some _ => match wb with
                     | Some b => match qp_decode 0 true (join_crlf b) with
                                 | Some dec => same_upto_final_crlf_b dec obody
                                 | None => false
                                 end
                     | None => false
                     end
         | None => bytes_eqb obody []
         end
  | None =>
      unfolds_to (join_crlf xh) (join_crlf oh)
      && bytes_eqb (match xb with Some b => join_crlf b | None => [] end) obody
      && Bool.eqb (match xb with Some _ => true | None => false end) (match ob with Some _ => true | None => false end)
  end.

(** a non-multipart message that went the recoding way *)
Definition spec_ok_C07_recoded (m helo stream : bytes) : bool :=
  match strip_terminator stream, marker_lines helo with
  | Some d, Some (l1, l2) =>
      match crlf_lines d with
      | None => false
      | Some ws => entity_ok l1 l2 (split_lines m) ws
      end
  | _, _ => false
  end.

(* ------------------------------------------------------------------ well-formed multipart messages (one level) *)
Definition BOUNDARY_NAME : bytes := [98; 111; 117; 110; 100; 97; 114; 121; 61]%N.    (* "boundary=" *)
Definition CT_NAME : bytes := [99; 111; 110; 116; 101; 110; 116; 45; 116; 121; 112; 101; 58]%N.   (* "content-type:" *)

(** the text behind the first occurrence of [needle] in [hay] (compared in lower case), taken from [orig] *)
Fixpoint after_b (needle : bytes) (hay orig : bytes) : option bytes :=
  match hay, orig with
  | _ :: t, _ :: ot => if prefix_b needle hay then Some (skipn (length needle) orig) else after_b needle t ot
  | _, _ => None
  end.

Fixpoint take_until (stop : N -> bool) (l : bytes) : bytes :=
  match l with
  | c :: r => if stop c then [] else c :: take_until stop r
  | [] => []
  end.

(** the boundary parameter of a (folded) header field given as its lines *)
Definition boundary_of (field : list bytes) : option bytes :=
  let f := concat field in
  match after_b BOUNDARY_NAME (lower f) f with
  | Some (c :: r) =>
      let b := if N.eqb c 34 then take_until (fun x => N.eqb x 34) r
               else take_until (fun x => is_blank_c x || N.eqb x 59) (c :: r) in
      match b with [] => None | _ => Some b end
  | _ => None
  end.

(** the lines of the field that starts with the first header line whose lower-case form starts with [name] *)
Fixpoint field_lines (name : bytes) (taking : bool) (ls : list bytes) : list bytes :=
  match ls with
  | [] => []
  | l :: rest =>
      if taking then (if is_cont l then l :: field_lines name true rest else [])
      else if prefix_b name (lower l) then l :: field_lines name true rest
      else field_lines name false rest
  end.

Definition strip_blanks_end (l : bytes) : bytes := rev (drop_blanks (rev l)).
Definition DD : bytes := [DASH; DASH].

(** classify a body line: 1 = delimiter "--b", 2 = close delimiter "--b--", 3 = begins like a delimiter but is
    neither (outside the domain), 0 = anything else *)
Definition delim_kind (b : bytes) (l : bytes) : nat :=
  let s := strip_blanks_end l in
  if bytes_eqb s (DD ++ b) then 1
  else if bytes_eqb s (DD ++ b ++ DD) then 2
  else if prefix_b (DD ++ b) l then 3
  else 0.

(** split body lines into preamble, parts, epilogue; [None] when the structure is not
    preamble (delimiter part)+ close-delimiter epilogue, or a part is empty *)
Fixpoint split_parts (b : bytes) (ls : list bytes) (state : nat) (cur : list bytes) (pre : list bytes) (parts : list (list bytes))
  : option (list bytes * list (list bytes) * list bytes) :=
  match ls with
  | [] => match state with
          | 2 => Some (pre, rev parts, rev cur)
          | _ => None
          end
  | l :: rest =>
      match state with
      | 2 => match delim_kind b l with 0 => split_parts b rest 2 (l :: cur) pre parts | _ => None end
      | _ =>
          match delim_kind b l with
          | 0 => split_parts b rest state (l :: cur) pre parts
          | 1 => match state with
                 | 0 => split_parts b rest 1 [] (rev cur) parts
                 | _ => match cur with [] => None | _ => split_parts b rest 1 [] pre (rev cur :: parts) end
                 end
          | 2 => match state with
                 | 0 => None
                 | _ => match cur with [] => None | _ => split_parts b rest 2 [] pre (rev cur :: parts) end
                 end
          | _ => None
          end
      end
  end.

Definition lines_7bit_short (ls : list bytes) : bool :=
  forallb (fun l => negb (existsb octet_8bit l) && Nat.leb (length l) MAXLINE) ls.

(** a part the property speaks about: no nested multipart, declared encoding absent / 7bit / 8bit / binary *)
Definition part_domain (ls : list bytes) : bool := c07_domain (join_crlf ls).

Fixpoint all2 {A} (f : A -> A -> bool) (a b : list A) : bool :=
  match a, b with
  | [], [] => true
  | x :: a', y :: b' => f x y && all2 f a' b'
  | _, _ => false
  end.

(** a one-level multipart message: Some true / Some false / None = outside the domain *)
Definition spec_ok_C07_multipart (m helo stream : bytes) : option bool :=
  let (oh, ob) := split_hdr (split_lines m) in
  let '(nct, _, _) := drop_field CT_NAME false oh in
  match nct, boundary_of (field_lines CT_NAME false oh), ob with
  | 1, Some b, Some obl =>
      match split_parts b obl 0 [] [] [] with
      | Some (opre, oparts, oepi) =>
          if lines_7bit_short opre && lines_7bit_short oepi && forallb part_domain oparts
             && negb (existsb (fun l => contains_b MULTIPART_NAME (lower l)) (concat oparts)) then
            match strip_terminator stream, marker_lines helo with
            | Some d, Some (l1, l2) =>
                match crlf_lines d with
                | None => Some false
                | Some ws =>
                    let (xh, _) := split_hdr (map unstuff_line ws) in
                    let (_, wb) := split_hdr ws in
                    (* the container's own Content-Transfer-Encoding field is dropped *)
                    let '(_, _, oh') := drop_field CTE_NAME false oh in
                    match wb with
                    | Some wbl =>
                        match split_parts b (map unstuff_line wbl) 0 [] [] [], split_parts b wbl 0 [] [] [] with
                        | Some (xpre, _, xepi), Some (_, wparts, _) =>
                            Some (unfolds_to (join_crlf xh) (join_crlf oh')
                                  && all2 bytes_eqb xpre opre && all2 bytes_eqb xepi oepi
                                  && all2 (entity_ok l1 l2) oparts wparts)
                        | _, _ => Some false
                        end
                    | None => Some false
                    end
                end
            | _, _ => Some false
            end
          else None
      | None => None
      end
  | _, _, _ => None
  end.

Definition is_multipart_msg (m : bytes) : bool :=
  let (hdr, _) := split_hdr (split_lines m) in existsb (fun l => contains_b MULTIPART_NAME (lower l)) hdr.

(** result: Some true = ok, Some false = violated, None = outside the domain *)
Definition spec_ok_C07 (m helo stream : bytes) (qpath : bool) : option bool :=
  if negb qpath then Some (spec_ok_C07_plain m stream)
  else if c07_domain m then Some (spec_ok_C07_recoded m helo stream)
  else if is_multipart_msg m then spec_ok_C07_multipart m helo stream
  else None.

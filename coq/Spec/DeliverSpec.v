(** C07 — the boolean checker run on what the C code wrote (the stream of octets after the 354). *)
From Qv Require Import Common.Bytes Spec.SmtpDataSpec.

(** no recoding: byte for byte the dot-stuffed normalisation followed by the terminator *)
Definition spec_ok_C07_plain (m stream : bytes) : bool := bytes_eqb stream (plain_wire m).

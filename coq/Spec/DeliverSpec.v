(** C07 — the receiver's view, as an executable checker run on what the C code wrote
    (the stream of octets after the 354).  Independent of the models: it undoes, in the order a
    receiver would, the dot-stuffing, the header folding Qremote introduced, and the
    quoted-printable encoding Qremote declared, and compares with the normalised original.

    Domain ([c07_domain]): the property quantifies over messages whose declared transfer encoding
    is absent, 7bit, 8bit or binary; multipart messages are left to the C06 checker and to the
    model/C agreement here (result "pre"). *)
From Qv Require Import Common.Bytes Gen.GenQrdata Spec.SmtpDataSpec.

(** no recoding: byte for byte the dot-stuffed normalisation followed by the terminator *)
Definition spec_ok_C07_plain (m stream : bytes) : bool := bytes_eqb stream (plain_wire m).

(* ------------------------------------------------------------------ small text helpers *)
Definition lower (l : bytes) : bytes := map to_lower l.

Fixpoint prefix_b (p l : bytes) : bool :=
  match p, l with
  | [], _ => true
  | x :: p', y :: l' => N.eqb x y && prefix_b p' l'
  | _ :: _, [] => false
  end.

Fixpoint contains_b (needle hay : bytes) : bool :=
  match hay with
  | [] => prefix_b needle []
  | _ :: t => prefix_b needle hay || contains_b needle t
  end.

Definition is_blank_c (c : N) : bool := N.eqb c SP || N.eqb c HT.
Definition is_cont (l : bytes) : bool := match l with c :: _ => is_blank_c c | [] => false end.

Fixpoint drop_blanks (l : bytes) : bytes :=
  match l with
  | c :: r => if is_blank_c c then drop_blanks r else l
  | [] => []
  end.
Definition trim (l : bytes) : bytes := rev (drop_blanks (rev (drop_blanks l))).

(** header lines (before the first empty line) and, if there is an empty line, the lines behind it *)
Fixpoint split_hdr (ls : list bytes) : list bytes * option (list bytes) :=
  match ls with
  | [] => ([], None)
  | l :: rest =>
      match l with
      | [] => ([], Some rest)
      | _ => let (h, b) := split_hdr rest in (l :: h, b)
      end
  end.

(** remove every field whose lower-cased first line starts with [name], with its continuation lines;
    returns the number of fields removed, the first line of the last one, and what is left *)
Fixpoint drop_field (name : bytes) (skipping : bool) (ls : list bytes) : nat * bytes * list bytes :=
  match ls with
  | [] => (0, [], [])
  | l :: rest =>
      if skipping && is_cont l then drop_field name true rest
      else if prefix_b name (lower l) then
        let '(n, v, r) := drop_field name true rest in (S n, match n with O => l | _ => v end, r)
      else let '(n, v, r) := drop_field name false rest in (n, v, l :: r)
  end.

(** remove the two consecutive lines [l1], [l2] *)
Fixpoint drop_marker (l1 l2 : bytes) (ls : list bytes) : option (list bytes) :=
  match ls with
  | a :: rest =>
      match rest with
      | b :: rest' =>
          if bytes_eqb a l1 && bytes_eqb b l2 then Some rest'
          else match drop_marker l1 l2 rest with Some r => Some (a :: r) | None => None end
      | [] => None
      end
  | [] => None
  end.

(** [x] is [o] with "CRLF SP" inserted at some places (the folding Qremote introduces) *)
Fixpoint unfolds_to (x o : bytes) {struct x} : bool :=
  match x with
  | [] => match o with [] => true | _ => false end
  | c :: xt =>
      (match o with oc :: ot => N.eqb c oc && unfolds_to xt ot | [] => false end)
      || (match xt with
          | c2 :: c3 :: x' => N.eqb c CR && N.eqb c2 LF && N.eqb c3 SP && unfolds_to x' o
          | _ => false
          end)
  end.

Definition CTE_NAME : bytes :=
  [99; 111; 110; 116; 101; 110; 116; 45; 116; 114; 97; 110; 115; 102; 101; 114; 45; 101; 110; 99; 111; 100; 105; 110; 103; 58]%N.
  (* "content-transfer-encoding:" *)
Definition MULTIPART_NAME : bytes := [109; 117; 108; 116; 105; 112; 97; 114; 116; 47]%N.    (* "multipart/" *)
Definition V_7BIT : bytes := [55; 98; 105; 116]%N.
Definition V_8BIT : bytes := [56; 98; 105; 116]%N.
Definition V_BINARY : bytes := [98; 105; 110; 97; 114; 121]%N.

(** the message is one the property speaks about (for the recoding path) *)
Definition c07_domain (m : bytes) : bool :=
  let (hdr, _) := split_hdr (split_lines m) in
  let '(n, cte, _) := drop_field CTE_NAME false hdr in
  negb (existsb (fun l => contains_b MULTIPART_NAME (lower l)) hdr)
  && match n with
     | O => true
     | S O => let v := trim (skipn (length CTE_NAME) (lower cte)) in
              bytes_eqb v V_7BIT || bytes_eqb v V_8BIT || bytes_eqb v V_BINARY
     | _ => false
     end.

(** the two lines Qremote inserts when it recodes a body *)
Definition marker_lines (helo : bytes) : option (bytes * bytes) :=
  match crlf_lines (RECODED_STR ++ helo ++ CRLF) with
  | Some [l1; l2] => Some (l1, l2)
  | _ => None
  end.

(** a non-multipart message that went the recoding way *)
Definition spec_ok_C07_recoded (m helo stream : bytes) : bool :=
  match strip_terminator stream, marker_lines helo with
  | Some d, Some (l1, l2) =>
      match crlf_lines d with
      | None => false
      | Some ws =>
          let (xh, xb) := split_hdr (map unstuff_line ws) in
          let (_, wb) := split_hdr ws in       (* the body as it is on the wire, dots still stuffed *)
          let (oh, ob) := split_hdr (split_lines m) in
          let obody := match ob with Some b => join_crlf b | None => [] end in
          match drop_marker l1 l2 xh with
          | Some xh' =>
              (* body declared quoted-printable: header without the old Content-Transfer-Encoding field *)
              let '(_, _, oh') := drop_field CTE_NAME false oh in
              unfolds_to (join_crlf xh') (join_crlf oh')
              && match xb with
                 | Some _ => match wb with
                             | Some b => match qp_decode 0 true (join_crlf b) with
                                         | Some dec => same_upto_final_crlf_b dec obody
                                         | None => false
                                         end
                             | None => false
                             end
                 | None => bytes_eqb obody []
                 end
          | None =>
              unfolds_to (join_crlf xh) (join_crlf oh)
              && bytes_eqb (match xb with Some b => join_crlf b | None => [] end) obody
              && Bool.eqb (match xb with Some _ => true | None => false end) (match ob with Some _ => true | None => false end)
          end
      end
  | _, _ => false
  end.

(** result: Some true = ok, Some false = violated, None = outside the domain *)
Definition spec_ok_C07 (m helo stream : bytes) (qpath : bool) : option bool :=
  if negb qpath then Some (spec_ok_C07_plain m stream)
  else if c07_domain m then Some (spec_ok_C07_recoded m helo stream)
  else None.

(** C08 / C01 / C03 / C15 — the session properties as a checker over event
    traces, independent of the server's internal state.

    The ghost notes in the trace mark accepted greetings, accepted MAIL FROM /
    RCPT TO, accepted DATA, and every point where sender and recipients are
    discarded.  [trace_run] replays a trace on the abstract machine
      phase  : nothing yet | greeted | sender given | recipient(s) given
      txn    : the open transaction (sender, recipients accepted so far)
    and fails (None) as soon as the trace does something the properties forbid. *)
From Qv Require Import Common.Bytes Gen.GenSession Model.NetRead Model.Session.

Inductive phase := PInit | PHelo | PMail | PRcpt.
Definition txn := option (bytes * list bytes).
Record astate := { a_phase : phase; a_txn : txn; a_stored : nat (* recipients stored, including withdrawn ones *);
                   a_auth : bool (* C01: an AUTH succeeded earlier on this connection *);
                   a_esmtp : bool (* C09: the last accepted greeting was EHLO *);
                   a_cert : bool (* C01: tls_verify() accepted a client certificate earlier on this connection *) }.

Definition a_init : astate := {| a_phase := PInit; a_txn := None; a_stored := 0; a_auth := false; a_esmtp := false; a_cert := false |}.

(** F<sender>NUL (T<recipient>NUL)* NUL; a recipient at an address literal (the local IP) is written with
    the host name from control/localiphost instead *)
Definition env_of (liphost : bytes) (t : txn) : bytes :=
  match t with
  | Some (f, rs) => [70%N] ++ f ++ [0%N] ++ concat (map (fun a => [84%N] ++ rewrite_literal liphost a ++ [0%N]) rs) ++ [0%N]
  | None => []
  end.

Section WithOracles.
Variable o : oracles.

(** one event; None = the properties are violated *)
Definition trace_step (e : event) (a : astate) : option astate :=
  match e with
  | Note NBoundary =>
      (* sender and recipients are gone; a greeting stays *)
      Some {| a_phase := match a_phase a with PInit => PInit | _ => PHelo end; a_txn := None; a_stored := 0; a_auth := a_auth a; a_esmtp := a_esmtp a; a_cert := a_cert a |}
  | Note NHelo => Some {| a_phase := PHelo; a_txn := None; a_stored := 0; a_auth := a_auth a; a_esmtp := a_esmtp a; a_cert := a_cert a |}
  | Note (NMail f) =>
      (* C08: MAIL only after HELO/EHLO and outside a transaction;
         C01/C02: on the submission port only from a client that is entitled to relay (relay list or an earlier successful AUTH) *)
      match a_phase a with
      | PHelo => if o_submission o && negb (Z.ltb 0 (o_relay o)) && negb (a_auth a) && negb (a_cert a) then None
                 else Some {| a_phase := PMail; a_txn := Some (f, []); a_stored := 0; a_auth := a_auth a; a_esmtp := a_esmtp a; a_cert := a_cert a |}
      | _ => None
      end
  | Note (NRcpt addr cls) =>
      match a_txn a with
      | Some (f, rs) =>
          (* C08: a bounce has at most one recipient;  C15: at most MAXRCPT recipients are stored;
             C01: a recipient outside rcpthosts needs the relay list to match, an earlier successful AUTH, or a client
             certificate that tls_verify() accepted earlier on this connection *)
          if (match f, a_stored a with [], S _ => true | _, _ => false end) then None
          else if Nat.leb MAXRCPT (a_stored a) then None
          else if (match cls with RNotLocal => negb (Z.ltb 0 (o_relay o)) && negb (a_auth a) && negb (a_cert a) | RLocal => false end) then None
          else Some {| a_phase := PRcpt; a_txn := Some (f, rs ++ [addr]); a_stored := S (a_stored a); a_auth := a_auth a; a_esmtp := a_esmtp a; a_cert := a_cert a |}
      | None => None                      (* C08: RCPT only after MAIL *)
      end
  | Note (NEsmtp e) => Some {| a_phase := a_phase a; a_txn := a_txn a; a_stored := a_stored a; a_auth := a_auth a; a_esmtp := e; a_cert := a_cert a |}
  | Note (NAuth name) =>
      (* C09: AUTH is accepted only in ESMTP mode: the last accepted greeting was EHLO;
         C01/C09: authenticated from now on, for the rest of the connection (not undone by RSET, HELO or a new transaction) *)
      if negb (a_esmtp a) then None else
      Some {| a_phase := a_phase a; a_txn := a_txn a; a_stored := a_stored a;
              a_auth := a_auth a || negb (match name with [] => true | _ => false end); a_esmtp := a_esmtp a; a_cert := a_cert a |}
  | Note (NCert name) =>
      (* C01: from now on entitled by certificate, for the rest of the connection (relayclient = 1 is never taken back) *)
      Some {| a_phase := a_phase a; a_txn := a_txn a; a_stored := a_stored a; a_auth := a_auth a; a_esmtp := a_esmtp a; a_cert := true |}
  | Note NWithdraw =>
      match a_txn a with
      | Some (f, _) => Some {| a_phase := PRcpt; a_txn := Some (f, []); a_stored := S (a_stored a); a_auth := a_auth a; a_esmtp := a_esmtp a; a_cert := a_cert a |}
      | None => None
      end
  | Note (NData k) =>
      (* C08: DATA only after an accepted recipient that was not withdrawn *)
      match a_txn a with
      | Some (_, _ :: _) => Some a
      | _ => None
      end
  | Handoff env msg =>
      (* C08/C02: the envelope is exactly the open transaction *)
      match a_txn a with
      | Some _ => if bytes_eqb env (env_of (o_liphost o) (a_txn a)) then Some a else None
      | None => None
      end
  | _ => Some a
  end.

Fixpoint trace_run (evs : list event) (a : astate) : option astate :=
  match evs with
  | [] => Some a
  | e :: r => match trace_step e a with Some a' => trace_run r a' | None => None end
  end.

Definition trace_ok (evs : list event) : Prop := trace_run evs a_init <> None.

(** C03: between an accepted DATA (354) and the end of that transaction nothing but
    the 354 is sent; a hand-off happens only when the qmail-queue invocation it
    belongs to read everything and exited 0; the reply that closes the
    transaction is 250 exactly when the hand-off happened and 4xx/5xx otherwise. *)
Inductive qstate := QIdle | QData (k : nat) | QAccepted | QDone | QFailed.

Definition queue_step (e : event) (q : qstate) : option qstate :=
  match e, q with
  | Note (NData k), QIdle => if qq_nostart (o_qq o k) then None else Some (QData k)     (* no 354 when the queue could not be started *)
  | Note (NData _), _ => None
  | Handoff _ _, QData k => match o_qq o k with QQ_ok => Some QAccepted | _ => None end
  | Handoff _ _, _ => None
  | Note NBoundary, QData _ => Some QFailed
  | Note NBoundary, QAccepted => Some QDone
  | Note NBoundary, q => Some q
  | Reply c, QData _ => if N.eqb c 354 then Some q else None
  | Reply c, QAccepted => None
  | Reply c, QDone => if N.eqb c 250 then Some QIdle else None
  | Reply c, QFailed => if N.leb 400 c then Some QIdle else None
  | _, q => Some q
  end.

Fixpoint queue_run (evs : list event) (q : qstate) : option qstate :=
  match evs with
  | [] => Some q
  | e :: r => match queue_step e q with Some q' => queue_run r q' | None => None end
  end.

Definition queue_ok (evs : list event) : Prop := queue_run evs QIdle <> None.

(** C15: the connection is closed by check_max_bad_commands() exactly when more than
    MAXBADCMDS + 1 commands in a row were bad: every bad command below that is answered
    and the session goes on; the counter restarts with every good command *)
Definition bad_step (e : event) (c : nat) : option nat :=
  match e with
  | Note NBad => if Nat.leb c MAXBADCMDS then Some (S c) else None
  | Note NBadReset => Some 0
  | Note NBadClose => if Nat.ltb MAXBADCMDS c then Some c else None
  | _ => Some c
  end.
Fixpoint bad_run (evs : list event) (c : nat) : option nat :=
  match evs with
  | [] => Some c
  | e :: r => match bad_step e c with Some c' => bad_run r c' | None => None end
  end.
Definition bad_ok (evs : list event) : Prop := bad_run evs 0 <> None.

End WithOracles.

(** ---- the DATA limits, as functions of the data lines the client sent (without the final dot line) ---- *)
Definition stored (seen : list bytes) : bytes := concat (map (fun l => unstuff l ++ [LF]) seen).
Definition wire (seen : list bytes) : bytes := concat (map (fun l => l ++ [CR; LF]) seen).
Fixpoint szof (seen : list bytes) : N :=
  match seen with [] => 0%N | l :: r => (N.of_nat (length (unstuff l)) + 2 + szof r)%N end.
Definition rcv_line (l : bytes) : bool := negb (N.eqb (nth 0 l 0%N) DOT) && is_received l.
Definition count_rcv (ls : list bytes) : nat := length (filter rcv_line ls).
Fixpoint hdr_part (ls : list bytes) : list bytes :=
  match ls with [] => [] | l :: r => match l with [] => [] | _ => l :: hdr_part r end end.

(** verdict checker for one DATA payload, applied to the implementation's reply: a message answered 250 is within the size
    limit by the server's counter and has at most MAXHOPS Received: lines in its header; one answered 552 really is over
    the limit.  (554 has several causes and is left to the model comparison.)  Sound for the model: Proofs/DataProofs.v. *)
Definition data_verdict_ok (maxb : N) (lines : list bytes) (code : N) : bool :=
  if N.eqb code 250 then N.leb (szof lines) maxb && Nat.leb (count_rcv (hdr_part lines)) MAXHOPS
  else if N.eqb code 552 then N.ltb maxb (szof lines)
  else true.

(** ---- submission mode (TCPLOCALPORT = 587): the header fields the server may add ---- *)
Definition s_hdr_date : bytes := [68; 97; 116; 101; 58]%N.                                  (* "Date:" *)
Definition s_hdr_from : bytes := [70; 114; 111; 109; 58]%N.                                 (* "From:" *)
Definition s_hdr_msgid : bytes := [77; 101; 115; 115; 97; 103; 101; 45; 73; 100; 58]%N.      (* "Message-Id:" *)
Definition submission_port : bytes := SUBM_PORT.                                             (* TCPLOCALPORT that switches submission mode on *)
Definition dot_line (l : bytes) : bool := N.eqb (nth 0 l 0%N) DOT.
(** a field of that name is present: a header line that, as transmitted, does not start with a dot begins with the name (any case) *)
Definition field_line (name l : bytes) : bool := negb (dot_line l) && strncaseeq name l.
Definition field_present (name : bytes) (hdr : list bytes) : bool := existsb (field_line name) hdr.

(** the parameters of the additions: submission mode on/off, the date of the Received: line, the sender of the accepted
    MAIL FROM, the time stamp and the host name of the Message-Id *)
Record subm_par := { sp_on : bool; sp_date : bytes; sp_from : bytes; sp_stamp : bytes; sp_host : bytes }.

(** exactly the missing ones of Date, From, Message-Id, in this order, each once *)
Definition subm_fields (p : subm_par) (hdr : list bytes) : bytes :=
  (if field_present s_hdr_date hdr then [] else SUBM_DATE_PFX ++ sp_date p ++ [LF])
  ++ (if field_present s_hdr_from hdr then [] else SUBM_FROM_PFX ++ sp_from p ++ SUBM_FROM_END)
  ++ (if field_present s_hdr_msgid hdr then [] else SUBM_MSGID_PFX ++ sp_stamp p ++ SUBM_MSGID_AT ++ sp_host p ++ SUBM_MSGID_END).

Definition body_part (ls : list bytes) : list bytes := skipn (length (hdr_part ls)) ls.

(** what follows the trace header in the queued message: the header lines, in submission mode the added fields, then the
    rest (the empty line and the body) *)
Definition queued (p : subm_par) (lines : list bytes) : bytes :=
  stored (hdr_part lines) ++ (if sp_on p then subm_fields p (hdr_part lines) else []) ++ stored (body_part lines).

Definition par_of (dc : dcfg) : subm_par :=
  {| sp_on := d_subm dc; sp_date := d_date dc; sp_from := d_from dc; sp_stamp := d_stamp dc; sp_host := d_idhost dc |}.

(** THE PROPERTY AS STATED judges "the client omitted the field" on the message the client submitted, i.e. on the lines as
    qmail-queue receives them (leading dot removed): [field_stored].  The code judges it on the lines as transmitted and
    skips every line that starts with a dot ([field_present]).  The two differ exactly for a header line that hides one of
    the three names behind a needless leading dot (".Date: x" is stored as "Date: x"): [hidden_field]. *)
Definition field_stored (name : bytes) (hdr : list bytes) : bool := existsb (fun l => strncaseeq name (unstuff l)) hdr.
Definition hidden_line (l : bytes) : bool :=
  dot_line l && (strncaseeq s_hdr_date (unstuff l) || strncaseeq s_hdr_from (unstuff l) || strncaseeq s_hdr_msgid (unstuff l)).
Definition hidden_field (hdr : list bytes) : bool := existsb hidden_line hdr.

Definition subm_fields_full (p : subm_par) (hdr : list bytes) : bytes :=
  (if field_stored s_hdr_date hdr then [] else SUBM_DATE_PFX ++ sp_date p ++ [LF])
  ++ (if field_stored s_hdr_from hdr then [] else SUBM_FROM_PFX ++ sp_from p ++ SUBM_FROM_END)
  ++ (if field_stored s_hdr_msgid hdr then [] else SUBM_MSGID_PFX ++ sp_stamp p ++ SUBM_MSGID_AT ++ sp_host p ++ SUBM_MSGID_END).
Definition queued_full (p : subm_par) (lines : list bytes) : bytes :=
  stored (hdr_part lines) ++ (if sp_on p then subm_fields_full p (hdr_part lines) else []) ++ stored (body_part lines).

(** checker for the message of one hand-off, applied to the implementation: it ends with exactly the data lines the client
    sent (CRLF -> LF, one leading dot removed) - in submission mode with exactly the ones of the three fields that the
    submitted message lacks inserted at the end of the header block; what stands before that is the trace header.
    Sound for the model outside the class [hidden_field]: Proofs/DataProofs.v *)
Definition handoff_msg_ok (p : subm_par) (lines : list bytes) (msg : bytes) : bool :=
  Nat.leb (length (queued_full p lines)) (length msg)
  && bytes_eqb (skipn (length msg - length (queued_full p lines)) msg) (queued_full p lines).

(** C18 — what an observer of Qremote may see around a STARTTLS upgrade.

    The observation is the list of events of Model/TlsSwitch.v ([ev]): which MX was
    connected, every write with the channel it went through, every result of
    net_read() with the channel it was read from and the number of bytes then
    still unconsumed, the handshake with the number of clear-text bytes buffered
    when it started, the verification result, and the moment main() starts to
    transmit the message.  [spec_ok_C18] walks over the events once:

    * a handshake is only started on a connection still in clear (what the line
      buffer holds at that moment is recorded but must never be used, see next item);
    * after a successful handshake everything is read and written through TLS;
      every line read is exactly the next CRLF-terminated piece of what the TLS
      session delivered (by position: [left] counts what is unconsumed);
    * after a failed handshake the connection sees nothing but QUIT;
    * the message goes out in clear only when the route has no client
      certificate of its own and the host has neither a pinned certificate nor a
      usable TLSA record; it goes out through TLS only when, for such a host,
      the verification result was X509_V_OK, and every extension bit relied on
      was offered in a line received inside TLS;
    * the client certificate loaded is the one the route configures. *)
From Qv Require Import Common.Bytes Gen.GenStarttls Model.NetRead Model.TlsClient.
Local Open Scope bool_scope.

Inductive phase :=
| PNone                 (* no connection yet *)
| PClear                (* connected, clear text *)
| PFailed               (* the TLS handshake was started and failed *)
| PTls (prev : nat).    (* inside TLS; prev = bytes of the TLS stream not yet consumed *)

Record cst := mkC {
  x_k : nat;            (* the MX connected *)
  x_ph : phase;
  x_vfy : bool;         (* SSL_get_verify_result() was asked and said X509_V_OK *)
  x_acc : N             (* extension bits offered by lines received inside TLS *)
}.

Definition no_conn : conn := mkConn false false false [] 0 0 [] [] [].
Definition conn_of (k : tcase) (i : nat) : conn := nth i (k_conns k) no_conn.
Definition tls_stream (c : conn) : bytes := concat (c_tls c).

(** the records DNS has for this very host *)
Definition own_tlsa (c : conn) : list (N * Z) := if c_named c then c_tlsa c else [].
Definition usable_rec (r : N * Z) : bool := usage_usable (fst r) && (0 <? snd r)%Z.
(** the host has to authenticate itself; [tf] says which TLSA records count for a host
    (the property: [own_tlsa], the host's own records) *)
Definition need_verify (tf : conn -> list (N * Z)) (c : conn) : bool := pinned c || existsb usable_rec (tf c).

Definition line_ext (l : bytes) : N :=
  let e := check_ext (ext_arg l) in if (e <? 0)%Z then 0%N else Z.to_N e.

Definition step (tf : conn -> list (N * Z)) (k : tcase) (c : cst) (e : ev) : option cst :=
  let cn := conn_of k (x_k c) in
  match e with
  | EvTlsa _ => Some c
  | EvConn i => if Nat.ltb i (length (k_conns k)) then Some (mkC i PClear false 0) else None
  | EvCert r =>
      match x_ph c with
      | PClear => if Bool.eqb r (k_route k) then Some c else None
      | _ => None
      end
  | EvW t b =>
      match x_ph c with
      | PNone => None
      | PClear => if t then None else Some c
      | PFailed => if t then None else if bytes_eqb b ST_CMD_QUIT then Some c else None
      | PTls _ => if t then Some c else None
      end
  | EvR t it lft =>
      match x_ph c with
      | PNone => None
      | PClear | PFailed => if t then None else Some c
      | PTls prev =>
          if negb t then None else
          let T := tls_stream cn in
          match it with
          | RLine l =>
              if Nat.leb lft prev && bytes_eqb (sub T (length T - prev) (prev - lft)) (l ++ [CR; LF])
              then Some (mkC (x_k c) (PTls lft) (x_vfy c) (N.lor (x_acc c) (line_ext l)))
              else None
          | _ => if Nat.leb lft prev then Some (mkC (x_k c) (PTls lft) (x_vfy c) (x_acc c)) else None
          end
      end
  | EvHs pending h =>
      match x_ph c with
      | PClear => Some (mkC (x_k c) (if N.eqb h 0 then PTls (length (tls_stream cn)) else PFailed) false 0)
      | _ => None
      end
  | EvVfy v =>
      match x_ph c with
      | PTls _ => Some (mkC (x_k c) (x_ph c) (N.eqb v 0) (x_acc c))
      | _ => None
      end
  | EvMail t ext =>
      match x_ph c with
      | PClear => if t || k_route k || need_verify tf cn then None else Some c
      | PTls _ =>
          if negb t || (need_verify tf cn && negb (x_vfy c)) || negb (N.eqb (N.lor (x_acc c) ext) (x_acc c)) then None
          else Some c
      | _ => None
      end
  end.

Fixpoint steps (tf : conn -> list (N * Z)) (k : tcase) (c : cst) (tr : list ev) : option cst :=
  match tr with
  | [] => Some c
  | e :: tr' => match step tf k c e with Some c' => steps tf k c' tr' | None => None end
  end.

Definition cst0 : cst := mkC 0 PNone false 0.

Definition spec_ok_with (tf : conn -> list (N * Z)) (k : tcase) (tr : list ev) : bool :=
  match steps tf k cst0 tr with Some _ => true | None => false end.

Definition spec_ok_C18 (k : tcase) (tr : list ev) : bool := spec_ok_with own_tlsa k tr.

(** the known finding F-C18-3: connect_mx() asks for the TLSA records of the first MX of the
    list and applies them to whatever MX it connects to.  The class: some MX of the case
    has other records than the ones used for it. *)
Fixpoint tlsa_eqb (a b : list (N * Z)) : bool :=
  match a, b with
  | [], [] => true
  | (u, r) :: a', (v, q) :: b' => N.eqb u v && Z.eqb r q && tlsa_eqb a' b'
  | _, _ => false
  end.
Definition class_wrong_host (k : tcase) : bool :=
  negb (forallb (fun c => tlsa_eqb (own_tlsa c) (tlsa_eff (k_conns k))) (k_conns k)).

(* ------------------------------------------------------------------ the property, event by event *)
(** the events since the last connect *)
Fixpoint since_conn_acc (acc tr : list ev) : list ev :=
  match tr with
  | [] => acc
  | EvConn _ :: tr' => since_conn_acc [] tr'
  | e :: tr' => since_conn_acc (acc ++ [e]) tr'
  end.
Definition since_conn (tr : list ev) : list ev := since_conn_acc [] tr.

Fixpoint last_conn_acc (o : option nat) (tr : list ev) : option nat :=
  match tr with
  | [] => o
  | EvConn i :: tr' => last_conn_acc (Some i) tr'
  | _ :: tr' => last_conn_acc o tr'
  end.
(** the MX the client is connected to at the end of [tr] *)
Definition last_conn (tr : list ev) : option nat := last_conn_acc None tr.

Definition hs_done (l : list ev) : Prop := exists p, In (EvHs p 0%N) l.
Definition hs_failed (l : list ev) : Prop := exists p h, h <> 0%N /\ In (EvHs p h) l.

(** [l] sits in [stream] in front of a CRLF, with [lft] bytes behind that CRLF *)
Definition cut_at (stream l : bytes) (lft : nat) : Prop :=
  exists pre post, stream = pre ++ l ++ [CR; LF] ++ post /\ length post = lft.

(** what may be observed as the next event [e] after the events [pre] *)
Definition C18_event_ok (tf : conn -> list (N * Z)) (k : tcase) (pre : list ev) (e : ev) : Prop :=
  let since := since_conn pre in
  match e with
  | EvHs _ _ =>
      (* once per connection *)
      ~ hs_done since /\ ~ hs_failed since
  | EvR t it lft =>
      (* TLS is used for reading exactly from the successful handshake on, and a line read through
         TLS is a piece of what the TLS session of this connection delivered, at this very position *)
      (t = true <-> hs_done since) /\
      match it with
      | RLine l => t = true -> exists i, last_conn pre = Some i /\ cut_at (tls_stream (conn_of k i)) l lft
      | _ => True
      end
  | EvW t b =>
      (* nothing is written in clear after the handshake; after a failed one only QUIT *)
      (t = true <-> hs_done since) /\ (hs_failed since -> b = ST_CMD_QUIT)
  | EvMail t ext =>
      exists i, last_conn pre = Some i /\
      ~ hs_failed since /\ (t = true <-> hs_done since) /\
      (* in clear only without a certificate of the route and without a requirement for this host *)
      (t = false -> k_route k = false /\ need_verify tf (conn_of k i) = false) /\
      (* a host that has to authenticate itself did so *)
      (need_verify tf (conn_of k i) = true -> In (EvVfy 0) since) /\
      (* inside TLS every extension relied on was offered in a line received inside TLS *)
      (t = true -> forall bit, N.testbit ext bit = true ->
         exists l lft, In (EvR true (RLine l) lft) since /\ N.testbit (line_ext l) bit = true)
  | EvCert r => r = k_route k
  | EvVfy _ => hs_done since
  | _ => True
  end.

Definition C18_trace_ok (tf : conn -> list (N * Z)) (k : tcase) (tr : list ev) : Prop :=
  forall pre e post, tr = pre ++ e :: post -> C18_event_ok tf k pre e.

(** the property for one case *)
Definition C18_holds (k : tcase) : Prop := C18_trace_ok own_tlsa k (trace k).

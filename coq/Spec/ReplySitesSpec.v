(** C10, engine `replysites`: what is claimed about the places where Qsmtpd builds a reply.

    - [valid_reply_stream]: a byte stream that is one syntactically valid (multi-line) SMTP reply,
      stated with [render] of Spec/ReplySpec.v;
    - [class_inv]: what each source class of an embedded string guarantees (the hypothesis of the
      site theorems; where each guarantee comes from is recorded per hole in Gen/GenReplies.v
      [hole_sources] and in reports/C10-sites.md);
    - boolean checkers evaluated on the generated tables ([literal_reply_ok], [template_ok],
      [ml_template_ok]) - their soundness w.r.t. the Props above is proved in
      Proofs/ReplySitesProofs.v - and on C outputs ([spec_ok_site], [spec_ok_nomail], [spec_ok_literal]). *)
From Qv Require Import Common.Bytes Common.ReplyTpl Spec.ReplySpec Gen.GenReplies Model.NetWriten Model.ReplySites.

Definition digit_P (b : N) : Prop := (48 <= b /\ b <= 57)%N.

(** one complete reply: lines "code-text CRLF" ... "code text CRLF", all with the same three
    digit code, every text at most 506 octets (line <= 512 with CRLF) and free of CR/LF *)
Definition valid_reply_stream (out : bytes) : Prop :=
  exists code texts, texts <> [] /\ out = concat (render code SP texts)
    /\ length code = 3 /\ Forall digit_P code
    /\ Forall (fun t => length t <= 506) texts /\ Forall no_crlf texts.

(** ** what the source of an embedded string guarantees *)
Definition DOMAIN_MAX : nat := 255.      (* domainvalid(): at most 255 octets *)
Definition AUTHLIST_MAX : nat := 64.     (* " LOGIN PLAIN CRAM-MD5": every mechanism of authcmds[] at most once *)
Definition NUM_MAX : nat := 20.          (* ULSTRLEN - 1 digits *)

Definition crlf_ended (max : nat) (v : bytes) : Prop :=
  exists t, v = t ++ CRLF /\ no_crlf t /\ length t <= max.

Definition class_inv (c : hclass) (v : bytes) : Prop :=
  match c with
  | HDomain => no_crlf v /\ length v <= DOMAIN_MAX
  | HCodePrefix => no_crlf v /\ length v = 10 /\ Forall digit_P (firstn 3 v) /\ nth 3 v 0%N = SP
  | HAuthList => crlf_ended AUTHLIST_MAX v
  | HNumCRLF => crlf_ended NUM_MAX v
  | _ => no_crlf v
  end.

(** the array a call site hands to the writer: the literals of its template, and for every hole a
    string its source class allows *)
Inductive elem_rel : elem -> bytes -> Prop :=
| ER_lit b : elem_rel (Lit b) b
| ER_hole c v : class_inv c v -> elem_rel (Hole c) v.

(** ** net_writen templates *)
Definition s0_ok_b (s0 : bytes) : bool :=
  Nat.leb 4 (length s0) && Nat.ltb (length s0) 510 && forallb is_digit (firstn 3 s0)
  && N.eqb (nth 3 s0 0%N) SP && no_crlf_b s0.

Definition text_class (c : hclass) : bool :=
  match c with HAuthList | HNumCRLF => false | _ => true end.

Definition rest_ok (e : elem) : bool :=
  match e with Lit b => no_crlf_b b | Hole c => text_class c end.

(** first element: a literal "NNN text" below 510 octets (or the validated code of cb_nomail);
    all others free of CR/LF as far as they are literals, holes of a text class *)
Definition template_ok (t : list elem) : bool :=
  match t with
  | Lit s0 :: rest => s0_ok_b s0 && forallb rest_ok rest
  | Hole HCodePrefix :: rest => forallb rest_ok rest
  | _ => false
  end.

(** ** symbolic replies: literals and bounded holes *)
Inductive sym : Type :=
| SByte (b : N)
| SText (max : nat)          (* a CR/LF free text of at most [max] octets *)
| SBreak.                    (* CR LF *)

Fixpoint syms_of_lit (b : bytes) : list sym :=
  match b with
  | [] => []
  | x :: r =>
      match r with
      | y :: r' => if N.eqb x CR && N.eqb y LF then SBreak :: syms_of_lit r' else SByte x :: syms_of_lit r
      | [] => [SByte x]
      end
  end.

(** the text of a line: its maximal length and what follows its line break *)
Fixpoint body_scan (s : list sym) (ub : nat) : option (nat * list sym) :=
  match s with
  | [] => None
  | SBreak :: r => Some (ub, r)
  | SByte b :: r => if N.eqb b CR || N.eqb b LF then None else body_scan r (S ub)
  | SText m :: r => body_scan r (ub + m)
  end.

Fixpoint lines_scan (fuel : nat) (code : bytes) (s : list sym) : bool :=
  match fuel with
  | O => false
  | S f =>
      match s with
      | SByte a :: SByte b :: SByte c :: SByte sep :: body =>
          bytes_eqb [a; b; c] code &&
          match body_scan body 0 with
          | Some (ub, rest) =>
              Nat.leb ub 506 &&
              match rest with
              | [] => N.eqb sep SP
              | _ => N.eqb sep DASH && lines_scan f code rest
              end
          | None => false
          end
      | _ => false
      end
  end.

Definition sym_ok (s : list sym) : bool :=
  match s with
  | SByte a :: SByte b :: SByte c :: _ => forallb is_digit [a; b; c] && lines_scan (length s) [a; b; c] s
  | _ => false
  end.

(** (i) a fixed reply: split at CRLF; every line <= 512 with CRLF, same three digit code,
    '-' on all lines but the last, ' ' on the last, no other CR/LF, ends with CRLF *)
Definition literal_reply_ok (b : bytes) : bool := sym_ok (syms_of_lit b).

Definition syms_of_hole (c : hclass) : option (list sym) :=
  match c with
  | HDomain => Some [SText DOMAIN_MAX]
  | HAuthList => Some [SText AUTHLIST_MAX; SBreak]
  | HNumCRLF => Some [SText NUM_MAX; SBreak]
  | _ => None                                  (* unbounded text: not in a fixed multi-line reply *)
  end.

Fixpoint syms_of_tpl (t : list elem) : option (list sym) :=
  match t with
  | [] => Some []
  | Lit b :: t' => option_map (app (syms_of_lit b)) (syms_of_tpl t')
  | Hole c :: t' =>
      match syms_of_hole c, syms_of_tpl t' with
      | Some a, Some r => Some (a ++ r)
      | _, _ => None
      end
  end.

(** a net_write_multiline template: whatever its holes hold within their classes, the strings
    concatenate to one valid reply; and the array (with its terminating NULL) fits *)
Definition ml_template_ok (t : list elem) : bool :=
  match syms_of_tpl t with
  | Some s => sym_ok s
  | None => false
  end.

(** how a symbolic reply concretises *)
Inductive conc_rel : list sym -> bytes -> Prop :=
| conc_nil : conc_rel [] []
| conc_byte b s r : conc_rel s r -> conc_rel (SByte b :: s) (b :: r)
| conc_text m v s r : no_crlf v -> length v <= m -> conc_rel s r -> conc_rel (SText m :: s) (v ++ r)
| conc_break s r : conc_rel s r -> conc_rel (SBreak :: s) (CR :: LF :: r).

(** ** checkers for C outputs (failing-input search) *)
Definition class_inv_b (c : hclass) (v : bytes) : bool :=
  let ended max :=
    Nat.leb 2 (length v) && ends_crlf v && no_crlf_b (firstn (length v - 2) v) && Nat.leb (length v - 2) max in
  match c with
  | HDomain => no_crlf_b v && Nat.leb (length v) DOMAIN_MAX
  | HCodePrefix => no_crlf_b v && Nat.eqb (length v) 10 && forallb is_digit (firstn 3 v) && N.eqb (nth 3 v 0%N) SP
  | HAuthList => ended AUTHLIST_MAX
  | HNumCRLF => ended NUM_MAX
  | _ => no_crlf_b v
  end.

(** the strings of the case are inside what their sources guarantee (otherwise the case is outside
    the precondition).  DNS text is not a precondition: making it harmless is the code's job. *)
Definition case_pre (es : list case_elem) : bool :=
  forallb (fun e => match fst e with
                    | None | Some HDnsTxt => true
                    | Some c => class_inv_b c (class_value c (snd e))
                    end) es.

(** judge what the implementation wrote at a call site: a valid reply (three digits, ' ' on the last
    line, '-' before, <= 512, no stray CR/LF); and, when the case names the template exactly, with
    the code of the template and carrying the text of the array completely and in order *)
Definition spec_ok_site (func : bytes) (es : list case_elem) (ls : list bytes) : bool :=
  match resolve_tpl func es with
  | Some (true, t) =>
      literal_reply_ok (concat ls)
      && (negb (shape_exact t es) || bytes_eqb (concat ls) (concat (shape_args t es)))
  | Some (false, t) =>
      match ls, shape_args t es with
      | l :: _, s0 :: parts =>
          forallb is_digit (firstn 3 l) && lines_ok_b (firstn 3 l) SP ls
          && (negb (shape_exact t es) || spec_ok_C10 s0 parts ls)
      | _, _ => false
      end
  | None => false
  end.

Fixpoint is_suffix (m full : bytes) : bool :=
  bytes_eqb m full || match full with [] => false | _ :: r => is_suffix m r end.

(** cb_nomail: a valid reply whose text is the (sanitised) text of the file, behind the file's
    own code or behind a ten octet code of the server *)
Definition spec_ok_nomail (raw : bytes) (ls : list bytes) : bool :=
  let m := nomail_sanitise raw in
  match ls with
  | [] => false
  | l :: _ =>
      let code := firstn 3 l in
      let full := code ++ [SP] ++ payload_of ls in
      forallb is_digit code && Nat.eqb (length code) 3 && lines_ok_b code SP ls
      && is_suffix m full && (Nat.eqb (length full) (length m) || Nat.eqb (length full) (length m + 10))
  end.

Definition spec_ok_literal (func : bytes) (ls : list bytes) : bool :=
  literal_reply_ok (concat ls) && existsb (bytes_eqb (concat ls)) (literal_model func).

(** ** replies assembled from several calls (Gen/GenReplies.v: reply_sequences) *)

(** continuation lines only: every line "code-text CRLF" *)
Fixpoint open_scan (fuel : nat) (code : bytes) (s : list sym) : bool :=
  match fuel with
  | O => false
  | S f =>
      match s with
      | [] => true
      | SByte a :: SByte b :: SByte c :: SByte sep :: body =>
          bytes_eqb [a; b; c] code && N.eqb sep DASH &&
          match body_scan body 0 with
          | Some (ub, rest) => Nat.leb ub 506 && open_scan f code rest
          | None => false
          end
      | _ => false
      end
  end.

Definition open_ok (code pre : bytes) : bool :=
  let s := syms_of_lit pre in open_scan (S (length s)) code s.

Fixpoint split_last (ps : list piece) : option (list piece * piece) :=
  match ps with
  | [] => None
  | [p] => Some ([], p)
  | p :: r => match split_last r with Some (a, l) => Some (p :: a, l) | None => None end
  end.

Fixpoint lits_of (ps : list piece) : option (list bytes) :=
  match ps with
  | [] => Some []
  | PLit b :: r => option_map (cons b) (lits_of r)
  | _ :: _ => None
  end.

(** all pieces but the last are literals made of continuation lines with the code of the last
    piece; the last piece ends the reply *)
Definition seq_ok (ps : list piece) : bool :=
  match split_last ps with
  | Some (front, last) =>
      match lits_of front with
      | Some pre =>
          match last with
          | PLit b => literal_reply_ok (concat pre ++ b)
          | PWriten t =>
              template_ok t &&
              match t with
              | Lit s0 :: _ => open_ok (firstn 3 s0) (concat pre)
              | _ => false
              end
          | PMulti t =>
              ml_template_ok t &&
              match syms_of_tpl t with
              | Some s => sym_ok (syms_of_lit (concat pre) ++ s)
              | None => false
              end
          end
      | None => false
      end
  | None => false
  end.

(** what is claimed of such a sequence: whatever the holes of the last call hold (within their
    classes), the octets written by all its calls together are one valid reply *)
Definition seq_valid (ps : list piece) : Prop :=
  exists pre last, ps = map PLit pre ++ [last] /\
    match last with
    | PLit b => valid_reply_stream (concat pre ++ b)
    | PWriten t => forall args, Forall2 elem_rel t args ->
        exists s0 parts ls, args = s0 :: parts /\ net_writen s0 parts = Ok ls
          /\ valid_reply_stream (concat pre ++ concat ls)
    | PMulti t => forall args, Forall2 elem_rel t args ->
        net_write_multiline args = Ok [concat args] /\ valid_reply_stream (concat pre ++ concat args)
    end.

(** ** a stream of replies, as a session sees it (several replies one after the other) *)
Fixpoint stream_scan (fuel : nat) (open_code : option bytes) (s : list sym) : bool :=
  match fuel with
  | O => false
  | S f =>
      match s with
      | [] => match open_code with None => true | Some _ => false end
      | SByte a :: SByte b :: SByte c :: SByte sep :: body =>
          forallb is_digit [a; b; c]
          && match open_code with None => true | Some code => bytes_eqb [a; b; c] code end
          && match body_scan body 0 with
             | Some (ub, rest) =>
                 Nat.leb ub 506 &&
                 (if N.eqb sep SP then stream_scan f None rest
                  else if N.eqb sep DASH then stream_scan f (Some [a; b; c]) rest
                  else false)
             | None => false
             end
      | _ => false
      end
  end.

(** zero or more complete, valid replies and nothing else *)
Definition reply_stream_ok (b : bytes) : bool :=
  let s := syms_of_lit b in stream_scan (S (length s)) None s.

Definition spec_ok_stream (ls : list bytes) : bool := reply_stream_ok (concat ls).

(** C17 — STARTTLS (server): no clear-text input survives into the TLS session.

    Two things live here.

    (A) Checkers over the event trace of Model/TlsSwitch.v, used by the theorems:
        [ttrace_run]  the phase/transaction checker of Spec/SessionSpec.v, with the
                      abstract state RESET to "nothing yet" at every [TSwitch]
                      (except the flag "authenticated", which the code keeps):
                      a trace passes only if, after the handshake, MAIL FROM is
                      preceded by a new HELO/EHLO and every hand-off carries a
                      transaction that was opened after the handshake;
        [shape_ok]    everything before the switch happens in clear text,
                      everything after it inside TLS, and there is at most one
                      switch;

    (B) [spec_ok_C17]: a boolean judgement of an OBSERVATION of the implementation
        (reply codes with their channel, the STARTTLS announcement, the moment the
        client's handshake completed) against the script the client followed.  It
        does not use the server model. *)
From Qv Require Import Common.Bytes Gen.GenSession Model.NetRead Model.Session Spec.SessionSpec Model.TlsSwitch.

(** ---------- (A) trace checkers ---------- *)
Section WithOracles.
Variable o : oracles.

(** what the code keeps of the abstract state at the switch: nothing of the greeting or a transaction; but an
    authentication obtained earlier on the connection stays valid (xmitstat.authname is not touched by tls_init) *)
(* the ESMTP flag is not touched either; it is of no use until a new EHLO: the command state is the initial one *)
Definition a_reset (a : astate) : astate := {| a_phase := PInit; a_txn := None; a_stored := 0; a_auth := a_auth a; a_esmtp := a_esmtp a; a_cert := a_cert a |}.

Fixpoint ttrace_run (evs : list tevent) (a : astate) : option astate :=
  match evs with
  | [] => Some a
  | TE _ e :: r => match trace_step o e a with Some a' => ttrace_run r a' | None => None end
  | TSwitch :: r => ttrace_run r (a_reset a)     (* greeting, sender, recipients learned in clear text are gone *)
  | _ :: r => ttrace_run r a
  end.

Definition ttrace_ok (evs : list tevent) : Prop := ttrace_run evs a_init <> None.
End WithOracles.

Definition in_clear (e : tevent) : bool :=
  match e with TE b _ => negb b | TSwitch => false | _ => true end.
Definition in_tls (e : tevent) : bool :=
  match e with TE b _ => b | TUnmodelled => true | _ => false end.

(** clear-text events, then at most one switch followed by in-TLS events only (no announcement inside TLS) *)
Fixpoint shape_ok (evs : list tevent) : bool :=
  match evs with
  | [] => true
  | TSwitch :: r => forallb in_tls r
  | e :: r => in_clear e && shape_ok r
  end.

(** ---------- (B) judgement of an observation ---------- *)
Inductive otok :=
| OC (code : N)          (* reply received in clear text *)
| OT (code : N)          (* reply received inside TLS *)
| OOffer                 (* the preceding 250 announced STARTTLS *)
| OFail                  (* a handshake attempt of the client failed *)
| OSwitch                (* the client's handshake completed *)
| OUnm
| OX.                    (* bytes that are neither a reply nor a handshake record / a TLS stream that does not decrypt *)

Definition is_OSwitch (t : otok) : bool := match t with OSwitch => true | _ => false end.
Definition is_OFail (t : otok) : bool := match t with OFail => true | _ => false end.
Definition is_OT (t : otok) : bool := match t with OT _ => true | _ => false end.
Definition is_OX (t : otok) : bool := match t with OX => true | _ => false end.
Definition is_OOffer (t : otok) : bool := match t with OOffer => true | _ => false end.
Definition is_ready (t : otok) : bool := match t with OC c => N.eqb c 220 | OT c => N.eqb c 220 | _ => false end.

Fixpoint before_switch (obs : list otok) : list otok :=
  match obs with [] => [] | OSwitch :: _ => [] | t :: r => t :: before_switch r end.
Fixpoint after_switch (obs : list otok) : list otok :=
  match obs with [] => [] | OSwitch :: r => r | _ :: r => after_switch r end.

Definition count {A} (p : A -> bool) (l : list A) : nat := length (filter p l).

(** the bytes of the phases 0..k of the script *)
Fixpoint phases_upto (k : nat) (l : list (hs_kind * list bytes)) : bytes :=
  match k, l with
  | S k', (_, segs) :: l' => concat segs ++ phases_upto k' l'
  | _, _ => []
  end.
Definition nth_phase (k : nat) (l : list (hs_kind * list bytes)) : bytes :=
  match nth_error l k with Some (_, segs) => concat segs | None => [] end.

Definition STARTTLS_LINE : bytes := [83; 84; 65; 82; 84; 84; 76; 83; 13; 10]%N.
Definition ends_with_starttls (b : bytes) : bool :=
  let n := length STARTTLS_LINE in
  Nat.leb n (length b) && bytes_eqb (map to_upper (skipn (length b - n) b)) STARTTLS_LINE.

Definition is_eol (b : N) : bool := N.eqb b CR || N.eqb b LF.

Definition spec_ok_C17 (sc : script) (certfile tlsinit : bool) (obs : list otok) : bool :=
  let pre := before_switch obs in
  let post := after_switch obs in
  let switched := existsb is_OSwitch obs in
  let k := count is_OFail pre in                        (* handshake attempts that failed before the successful one *)
  let clear_sent := concat (sc_first sc) ++ phases_upto k (sc_later sc) in
  let tls_sent := nth_phase k (sc_later sc) in
  (* wire sanity: nothing undecodable, replies in TLS only after the switch, one switch at most *)
  negb (existsb is_OX obs)
  && negb (existsb is_OT pre) && forallb (fun t => is_OT t || match t with OUnm => true | _ => false end) post
  (* (1) the handshake completes only if the client sent NOTHING in clear text behind the STARTTLS line ... *)
  && (negb switched || ends_with_starttls clear_sent)
  (*     ... and inside TLS the server answers at most once per line it received inside TLS *)
  && Nat.leb (count is_OT post) (count is_eol tls_sent + Nat.div (length tls_sent) 1000)
  (* (3) announced only in clear text and only with a certificate; accepted (220 behind the greeting, a completed
         handshake) only with a usable certificate and never inside TLS *)
  && (certfile || negb (existsb is_OOffer obs))
  && negb (existsb is_OOffer post)
  && (tlsinit || (negb switched && Nat.leb (count is_ready pre) 1))
  && negb (existsb is_ready post).

(** RFC 7208 check_host() for records without macros, written from the RFC
    (sections 4, 5, 6 and the ABNF of section 12), not from the C: a strict
    parser into an abstract syntax, and an evaluator over it.  It is the
    reference the results of the implementation are compared with (boolean
    checker, correspondence run); no theorem relates it to Model/Spf.v.

    [RSkip] marks situations the comparison leaves out: a record outside the
    strict macro-free grammar (syntax errors are not compared: qsmtpd/spf.c
    evaluates from the left and stops at the first match), resolver answers RFC 7208
    has no result for (local errors, permanent errors), trailing dots. *)
From Qv Require Import Common.Bytes Gen.GenSpf Model.SpfBase Model.SpfEnv.
Local Open Scope N_scope.

Inductive qual := QPlus | QMinus | QTilde | QQuest.
Inductive mech :=
| MAll
| MInclude (d : bytes)
| MA (d : option bytes) (c4 c6 : N)
| MMx (d : option bytes) (c4 c6 : N)
| MPtr (d : option bytes)
| MIp4 (net len : N)
| MIp6 (net len : N) (short : bool)
| MExists (d : bytes).
Inductive term := TDir (q : qual) (m : mech) | TRedirect (d : bytes) | TExp (d : bytes) | TUnknown.

(* ------------------------------------------------------------------ the grammar *)
(** [strict] (a switch of the evaluator below): answer RSkip where the known deviations of qsmtpd/spf.c are met
    (F-C11-2, -10, -11, -12, -13): with [strict = true] the evaluator below
    is the class for which agreement with Model/Spf.v is PROVED (Proofs/SpfAgree.v); with
    [strict = false] it is plain RFC 7208. *)

Definition not_sp (c : N) : bool := negb (c =? 32).
(** the terms of a record: maximal runs of characters other than SP.
    [intok]: the scan is inside a term whose start was already seen *)
Fixpoint tokens (s : bytes) (intok : bool) : list bytes :=
  match s with
  | [] => []
  | c :: t => if c =? 32 then tokens t false
              else if intok then tokens t true
              else take_while not_sp s :: tokens t true
  end.

Definition lower (s : bytes) : bytes := map to_lower s.
Definition str_eq (a b : bytes) : bool := bytes_eqb a b.

(** toplabel, at least two characters, with a letter (the fragment; RFC 7208 also allows one letter) *)
Definition toplabel (l : bytes) : bool :=
  Nat.leb 2 (length l) && is_alnum (hd0 l)
  && match last_opt l with Some c => is_alnum c | None => false end
  && forallb (fun c => is_alnum c || (c =? 45)) l && existsb is_alpha l.
(** what follows the last dot *)
Definition last_label (s : bytes) : bytes := rev (take_while (fun c => negb (c =? 46)) (rev s)).
Definition ds_char (c : N) : bool := (33 <=? c) && (c <=? 126) && negb (c =? 37) && negb (c =? 47).
(** domain-spec without macros, no '/', no trailing dot, at most 253 octets, ending in "." toplabel *)
Definition domain_spec (s : bytes) : bool :=
  forallb ds_char s && Nat.leb (length s) 253 && negb (ends_with_dot s) && mem 46 s && toplabel (last_label s).

(** "0" / %x31-39 0*nDIGIT below or equal [max] *)
Definition cidr_num (s : bytes) (max : N) : option N :=
  match s with
  | [] => None
  | c :: t =>
      if negb (forallb is_digit s) then None
      else if (c =? 48) && negb (Nat.eqb (length t) 0) then None
      else if Nat.ltb 3 (length s) then None
      else let v := fst (digits_val s 0) in if v <=? max then Some v else None
  end.

(** dual-cidr-length: (ip4 length, ip6 length) with the defaults 32 and 128 *)
Definition dual_cidr (s : bytes) : option (N * N) :=
  match s with
  | [] => Some (32, 128)
  | c :: t =>
      if negb (c =? 47) then None
      else if hd0 t =? 47 then
        match cidr_num (tl t) 128 with Some v6 => Some (32, v6) | None => None end
      else
        let d4 := take_while is_digit t in
        let r := drop_while is_digit t in
        match cidr_num d4 32 with
        | None => None
        | Some v4 =>
            match r with
            | [] => Some (v4, 128)
            | _ => if is_prefix [47; 47] r
                   then match cidr_num (skipn 2 r) 128 with Some v6 => Some (v4, v6) | None => None end
                   else None
            end
        end
  end.

Definition not_slash (c : N) : bool := negb (c =? 47).

(** [ ":" domain-spec ] [ dual-cidr-length ] *)
Definition opt_domain_cidr (s : bytes) : option (option bytes * N * N) :=
  if hd0 s =? 58 then
    let n := take_while not_slash (tl s) in
    if domain_spec n
    then match dual_cidr (drop_while not_slash (tl s)) with Some (a, b) => Some (Some n, a, b) | None => None end
    else None
  else match dual_cidr s with Some (a, b) => Some (None, a, b) | None => None end.

Definition KW_ALL : bytes := [97; 108; 108].
Definition KW_INCLUDE : bytes := [105; 110; 99; 108; 117; 100; 101; 58].
Definition KW_EXISTS : bytes := [101; 120; 105; 115; 116; 115; 58].
Definition KW_IP4 : bytes := [105; 112; 52; 58].
Definition KW_IP6 : bytes := [105; 112; 54; 58].
Definition KW_PTR : bytes := [112; 116; 114].
Definition KW_MX : bytes := [109; 120].
Definition KW_A : bytes := [97].

(** "ip4:" / "ip6:" network [ "/" length ].  The text of an IPv4 network has 7..15 characters
    (digits and dots), that of an IPv6 network at most 45 (hex digits, colons, dots): implied by
    inet_pton() accepting it, stated to have it at hand.  An IPv6 text shorter than 3 characters
    ("::") is marked: qsmtpd/spf.c rejects it (F-C11-13). *)
Definition parse_ip4 (arg : bytes) : option mech :=
  let a := take_while not_slash arg in
  let r := drop_while not_slash arg in
  if negb (forallb ip4_char a && Nat.leb 7 (length a) && Nat.leb (length a) 15) then None else
  match inet_pton4 a with
  | None => None
  | Some o =>
      match r with
      | [] => Some (MIp4 (octets_to_N o) 32)
      | _ :: n => match cidr_num n 32 with
                  | Some v => Some (MIp4 (octets_to_N o) v)
                  | None => None
                  end
      end
  end.
Definition parse_ip6 (arg : bytes) : option mech :=
  let a := take_while not_slash arg in
  let r := drop_while not_slash arg in
  if negb (forallb ip6_char a && Nat.leb (length a) 45) then None else
  match inet_pton6 a with
  | None => None
  | Some o =>
      match r with
      | [] => Some (MIp6 (octets_to_N o) 128 (Nat.ltb (length a) 3))
      | _ :: n => match cidr_num n 128 with
                  | Some v => Some (MIp6 (octets_to_N o) v (Nat.ltb (length a) 3))
                  | None => None
                  end
      end
  end.

Definition parse_mech (s : bytes) : option mech :=
  let l := lower s in
  if str_eq l KW_ALL then Some MAll
  else if is_prefix KW_INCLUDE l then
    let d := skipn 8 s in if domain_spec d then Some (MInclude d) else None
  else if is_prefix KW_EXISTS l then
    let d := skipn 7 s in if domain_spec d then Some (MExists d) else None
  else if is_prefix KW_IP4 l then parse_ip4 (skipn 4 s)
  else if is_prefix KW_IP6 l then parse_ip6 (skipn 4 s)
  else if is_prefix KW_PTR l then
    match skipn 3 s with
    | [] => Some (MPtr None)
    | c :: d => if (c =? 58) && domain_spec d then Some (MPtr (Some d)) else None
    end
  else if is_prefix KW_MX l then
    match opt_domain_cidr (skipn 2 s) with Some (d, a, b) => Some (MMx d a b) | None => None end
  else if is_prefix KW_A l then
    match opt_domain_cidr (skipn 1 s) with Some (d, a, b) => Some (MA d a b) | None => None end
  else None.

Definition name_char (c : N) : bool := is_alpha c || is_digit c || (c =? 45) || (c =? 95) || (c =? 46).
Definition not_eq_sign (c : N) : bool := negb (c =? 61).
Definition mod_value_char (c : N) : bool := (33 <=? c) && (c <=? 126) && negb (c =? 37).
Definition N_REDIRECT : bytes := [114; 101; 100; 105; 114; 101; 99; 116].
Definition N_EXP : bytes := [101; 120; 112].
(** name "=" value *)
Definition parse_modifier (s : bytes) : option term :=
  let n := take_while not_eq_sign s in
  let r := drop_while not_eq_sign s in
  match r with
  | [] => None
  | _ :: v =>
      if negb (is_alpha (hd0 n) && forallb name_char n) then None
      else if str_eq (lower n) N_REDIRECT then (if domain_spec v then Some (TRedirect v) else None)
      else if str_eq (lower n) N_EXP then (if domain_spec v then Some (TExp v) else None)
      else if forallb mod_value_char v then Some TUnknown else None
  end.

Definition parse_qual (c : N) : option qual :=
  if c =? 43 then Some QPlus else if c =? 45 then Some QMinus
  else if c =? 126 then Some QTilde else if c =? 63 then Some QQuest else None.

Definition parse_term (s : bytes) : option term :=
  match parse_qual (hd0 s) with
  | Some q => match parse_mech (tl s) with Some m => Some (TDir q m) | None => None end
  | None =>
      match parse_mech s with
      | Some m => Some (TDir QPlus m)
      | None => parse_modifier s
      end
  end.

Fixpoint parse_terms (l : list bytes) : option (list term) :=
  match l with
  | [] => Some []
  | t :: r => match parse_term t, parse_terms r with
              | Some x, Some xs => Some (x :: xs)
              | _, _ => None
              end
  end.

(** SP or a visible character (every term consists of visible characters; stated to have it at hand) *)
Definition rec_char (c : N) : bool := (c =? 32) || ((33 <=? c) && (c <=? 126)).
(** the text after "v=spf1" *)
Definition parse_record (body : bytes) : option (list term) :=
  match body with
  | [] => Some []
  | c :: _ => if (c =? 32) && forallb rec_char body then parse_terms (tokens body false) else None
  end.

Definition is_redirect (t : term) : bool := match t with TRedirect _ => true | _ => false end.
Definition is_exp (t : term) : bool := match t with TExp _ => true | _ => false end.
Definition count_redirect (l : list term) : nat := length (filter is_redirect l).
Definition count_exp (l : list term) : nat := length (filter is_exp l).
Fixpoint first_redirect (l : list term) : option bytes :=
  match l with
  | [] => None
  | TRedirect d :: _ => Some d
  | _ :: r => first_redirect r
  end.

(* ------------------------------------------------------------------ evaluation *)
Inductive rres := RCode (z : Z) | RLimit | RSkip.

Definition qual_code (q : qual) : Z :=
  match q with QPlus => SPF_PASS | QMinus => SPF_FAIL | QTilde => SPF_SOFTFAIL | QQuest => SPF_NEUTRAL end.

(** outcome of one mechanism: match / no match / abort *)
Inductive mout := Match | NoMatch | Abort (r : rres).

Definition ci_eq (a b : bytes) : bool := bytes_eqb (lower a) (lower b).
(** <target-name> is the validated name or an ancestor of it; [eq]: how names are compared *)
Definition name_under_gen (eq : bytes -> bytes -> bool) (target v : bytes) : bool :=
  eq v target
  || (Nat.ltb (length target) (length v)
      && eq (skipn (length v - length target) v) target
      && (nth (length v - length target - 1) v 0 =? 46)).
Definition name_under : bytes -> bytes -> bool := name_under_gen ci_eq.

(** the selected record of a TXT answer: exactly one record starting "v=spf1" followed by SP or nothing;
    RSkip when a record starts with something that differs from the version only by case or by what follows *)
Definition version_ok (r : bytes) : bool :=
  is_prefix SPF_VERSION r && (match skipn 6 r with [] => true | c :: _ => c =? 32 end).
Definition select_record (recs : list bytes) : rres + option bytes :=
  let cand := filter (fun r => case_prefix SPF_VERSION r) recs in
  if negb (forallb version_ok cand)
  then inl RSkip
  else match cand with
       | [] => inr None
       | [r] => inr (Some (skipn 6 r))
       | _ => inl (RCode SPF_PERMERROR)
       end.

Section Rfc.
Variable D : dns.
Variable X : sess.
Variable strict : bool.

Definition addr_lookup (name : bytes) : addrans := if client_v4 X then d_a D name else d_aaaa D name.
Definition addr_match (l : list N) (c4 c6 : N) : bool :=
  if client_v4 X then existsb (fun a => is_v4mapped a && ip4_matchnet (s_client X) a c4) l
  else existsb (fun a => negb (is_v4mapped a) && ip6_matchnet (s_client X) a c6) l.

Fixpoint ptr_validated (names : list bytes) : list bytes :=
  match names with
  | [] => []
  | n :: r => match addr_lookup n with
              | AList l => if existsb (N.eqb (s_client X)) l then n :: ptr_validated r else ptr_validated r
              | AErr _ => ptr_validated r
              end
  end.

Definition target_of (domain : bytes) (d : option bytes) : bytes := match d with Some n => n | None => domain end.

Section Rec.
(** check_host() for a target name of include / redirect, with the number of DNS terms so far *)
Variable rec : bytes -> nat -> rres * nat.

(** the mechanisms that cause DNS queries, after the term was counted *)
Definition eval_dns_mech (domain : bytes) (m : mech) (cnt : nat) : mout * nat :=
  match m with
  | MInclude d =>
      match rec d cnt with
      | (RCode z, c') =>
          if (z =? SPF_PASS)%Z then (Match, c')
          else if (z =? SPF_FAIL)%Z || (z =? SPF_SOFTFAIL)%Z || (z =? SPF_NEUTRAL)%Z then (NoMatch, c')
          else if (z =? SPF_TEMPERROR)%Z then (Abort (RCode SPF_TEMPERROR), c')
          else (Abort (RCode SPF_PERMERROR), c')
      | (r, c') => (Abort r, c')
      end
  | MA d c4 c6 =>
      match addr_lookup (target_of domain d) with
      | AList l => (if addr_match l c4 c6 then Match else NoMatch, cnt)
      | AErr ETemp => (Abort (RCode SPF_TEMPERROR), cnt)
      | AErr _ => (Abort RSkip, cnt)
      end
  | MMx d c4 c6 =>
      match d_mx D (target_of domain d) with
      | MxNoHost | MxNull => (NoMatch, cnt)
      | MxErr ETemp => (Abort (RCode SPF_TEMPERROR), cnt)
      | MxErr _ => (Abort RSkip, cnt)
      | MxList l =>
          if 65536 <=? fst (hd (0, []) l) then (NoMatch, cnt)   (* no MX: the implicit one (A record, marked by this priority) is not used *)
          else if strict && Nat.leb 10 (length l) then (Abort RSkip, cnt)          (* F-C11-10 *)
          else if Nat.ltb 10 (length l) then (Abort (RCode SPF_PERMERROR), cnt)
          else (if addr_match (concat (map snd l)) c4 c6 then Match else NoMatch, cnt)
      end
  | MPtr d =>
      (* a client without reverse name at connection time has no PTR record (consistency of the environment) *)
      match s_remotehost X with
      | [] => (NoMatch, cnt)
      | _ =>
        match d_name D (s_client X) with
        | NErr e =>
            if strict then (Abort RSkip, cnt)                                     (* F-C11-12 *)
            else match e with
                 | ELocal => (Abort RSkip, cnt)
                 | _ => (NoMatch, cnt)   (* 5.5: "If a DNS error occurs while doing the PTR RR lookup, then this mechanism fails to match" *)
                 end
        | NList names =>
            (* names are compared case-insensitively *)
            (if existsb (name_under (target_of domain d)) (ptr_validated (firstn 10 names)) then Match else NoMatch, cnt)
        end
      end
  | MExists d =>
      match d_a D d with
      | AList [] => (NoMatch, cnt)
      | AList _ => (Match, cnt)
      | AErr ETemp => (Abort (RCode SPF_TEMPERROR), cnt)
      | AErr _ => (Abort RSkip, cnt)
      end
  | _ => (NoMatch, cnt)
  end.

Definition eval_mech (domain : bytes) (m : mech) (cnt : nat) : mout * nat :=
  match m with
  | MAll => (Match, cnt)
  | MIp4 net len =>
      if strict && (len <? 8) then (Abort RSkip, cnt)                               (* F-C11-2 *)
      else (if client_v4 X && ip4_matchnet (s_client X) net len then Match else NoMatch, cnt)
  | MIp6 net len short =>
      if strict && ((len <? 8) || short) then (Abort RSkip, cnt)                    (* F-C11-2, F-C11-13 *)
      else (if negb (client_v4 X) && ip6_matchnet (s_client X) net len then Match else NoMatch, cnt)
  | _ =>
      (* 4.6.4: at most 10 terms that cause DNS queries *)
      if Nat.leb 10 cnt then (Abort RLimit, S cnt) else eval_dns_mech domain m (S cnt)
  end.

(** the terms from the left: the result of the first match or abort, None when no mechanism matched *)
Fixpoint eval_terms (domain : bytes) (ts : list term) (cnt : nat) : option rres * nat :=
  match ts with
  | [] => (None, cnt)
  | TDir q m :: r =>
      match eval_mech domain m cnt with
      | (Match, c') => (Some (RCode (qual_code q)), c')
      | (NoMatch, c') => eval_terms domain r c'
      | (Abort x, c') => (Some x, c')
      end
  | _ :: r => eval_terms domain r cnt
  end.

(** 6.1: no mechanism matched *)
Definition eval_redirect (ts : list term) (cnt : nat) : rres * nat :=
  match first_redirect ts with
  | Some d =>
      if Nat.leb 10 cnt then (RLimit, S cnt)
      else match rec d (S cnt) with
           | (RCode z, c') =>
               if (z =? SPF_NONE)%Z then ((if strict then RSkip else RCode SPF_PERMERROR), c')    (* F-C11-11 *)
               else (RCode z, c')
           | r => r
           end
  | None => (RCode SPF_NEUTRAL, cnt)
  end.

Definition eval_record (domain body : bytes) (cnt : nat) : rres * nat :=
  match parse_record body with
  | None => (RSkip, cnt)
  | Some terms =>
      if Nat.ltb 1 (count_redirect terms) || Nat.ltb 1 (count_exp terms) then (RCode SPF_PERMERROR, cnt)
      else match eval_terms domain terms cnt with
           | (Some r, c') => (r, c')
           | (None, c') => eval_redirect terms c'
           end
  end.

Definition rfc_body (domain : bytes) (cnt : nat) : rres * nat :=
  match d_txt D domain with
  | TxtErr TENoent => (RCode SPF_NONE, cnt)
  | TxtErr TETemp => (RCode SPF_TEMPERROR, cnt)
  | TxtErr _ => (RSkip, cnt)
  | TxtRecs recs =>
      match select_record recs with
      | inl r => (r, cnt)
      | inr None => (RCode SPF_NONE, cnt)
      | inr (Some body) => eval_record domain body cnt
      end
  end.

End Rec.

Fixpoint rfc_check_gen (fuel : nat) (domain : bytes) (cnt : nat) : rres * nat :=
  match fuel with
  | O => (RSkip, cnt)
  | S f => rfc_body (rfc_check_gen f) domain cnt
  end.

Definition rfc_check_host_gen (domain : bytes) : rres :=
  if domain_invalid domain then RSkip else fst (rfc_check_gen 13 domain 0).

End Rfc.

(** check_host() of RFC 7208, 4: the result, or why the comparison is left out *)
Definition rfc_check (D : dns) (X : sess) := rfc_check_gen D X false.
Definition rfc_check_host (D : dns) (X : sess) (domain : bytes) : rres := rfc_check_host_gen D X false domain.
(** the same, but RSkip also where a known deviation of the implementation is met: the proved class *)
Definition rfc_check_host_strict (D : dns) (X : sess) (domain : bytes) : rres := rfc_check_host_gen D X true domain.

(** does the result of the implementation agree? *)
Definition rfc_agrees (r : rres) (rc : Z) : bool :=
  match r with
  | RSkip => true
  | RLimit => (rc =? SPF_FAIL)%Z || (rc =? SPF_PERMERROR)%Z    (* "exceeding it ends in fail or permerror" *)
  | RCode z => (rc =? z)%Z
  end.

(** RFC 7208 check_host() for records without macros, written from the RFC
    (sections 4, 5, 6 and the ABNF of section 12), not from the C: a strict
    parser into an abstract syntax, and an evaluator over it.  It is the
    reference the results of the implementation are compared with (boolean
    checker, correspondence run); no theorem relates it to Model/Spf.v.

    [RSkip] marks situations the comparison leaves out: a record outside the
    strict macro-free grammar (syntax errors are not compared: qsmtpd/spf.c
    evaluates from the left and stops at the first match), resolver answers RFC 7208
    has no result for (local errors, permanent errors), trailing dots. *)
From Qv Require Import Common.Bytes Gen.GenSpf Model.SpfBase Model.SpfEnv.
Local Open Scope N_scope.

Inductive qual := QPlus | QMinus | QTilde | QQuest.
Inductive mech :=
| MAll
| MInclude (d : bytes)
| MA (d : option bytes) (c4 c6 : N)
| MMx (d : option bytes) (c4 c6 : N)
| MPtr (d : option bytes)
| MIp4 (net len : N)
| MIp6 (net len : N)
| MExists (d : bytes).
Inductive term := TDir (q : qual) (m : mech) | TRedirect (d : bytes) | TExp (d : bytes) | TUnknown.

(* ------------------------------------------------------------------ the grammar *)
Fixpoint split_sp (s : bytes) (cur : bytes) : list bytes :=
  match s with
  | [] => match cur with [] => [] | _ => [rev cur] end
  | c :: t => if c =? 32 then (match cur with [] => split_sp t [] | _ => rev cur :: split_sp t [] end)
              else split_sp t (c :: cur)
  end.

Definition lower (s : bytes) : bytes := map to_lower s.
Definition str_eq (a b : bytes) : bool := bytes_eqb a b.

(** toplabel, at least two characters, with a letter (the fragment; RFC 7208 also allows one letter) *)
Definition toplabel (l : bytes) : bool :=
  Nat.leb 2 (length l) && is_alnum (hd0 l)
  && match last_opt l with Some c => is_alnum c | None => false end
  && forallb (fun c => is_alnum c || (c =? 45)) l && existsb is_alpha l.
Fixpoint last_label (s : bytes) (cur : bytes) (seen_dot : bool) : option bytes :=
  match s with
  | [] => if seen_dot then Some (rev cur) else None
  | c :: t => if c =? 46 then last_label t [] true else last_label t (c :: cur) seen_dot
  end.
(** domain-spec without macros, no '/', no trailing dot, at most 253 octets *)
Definition domain_spec (s : bytes) : bool :=
  forallb (fun c => (33 <=? c) && (c <=? 126) && negb (c =? 37) && negb (c =? 47)) s
  && Nat.leb (length s) 253
  && match last_label s [] false with Some l => toplabel l | None => false end.

(** "0" / %x31-39 0*nDIGIT below or equal [max] *)
Definition cidr_num (s : bytes) (max : N) : option N :=
  match s with
  | [] => None
  | c :: t =>
      if negb (forallb is_digit s) then None
      else if (c =? 48) && negb (Nat.eqb (length t) 0) then None
      else if Nat.ltb 3 (length s) then None
      else let v := fst (digits_val s 0) in if v <=? max then Some v else None
  end.

(** dual-cidr-length: (ip4 length, ip6 length) with the defaults 32 and 128 *)
Definition dual_cidr (s : bytes) : option (N * N) :=
  match s with
  | [] => Some (32, 128)
  | c :: t =>
      if negb (c =? 47) then None
      else if hd0 t =? 47 then
        match cidr_num (tl t) 128 with Some v6 => Some (32, v6) | None => None end
      else
        let d4 := take_while is_digit t in
        let r := drop_while is_digit t in
        match cidr_num d4 32 with
        | None => None
        | Some v4 =>
            match r with
            | [] => Some (v4, 128)
            | _ => if is_prefix [47; 47] r
                   then match cidr_num (skipn 2 r) 128 with Some v6 => Some (v4, v6) | None => None end
                   else None
            end
        end
  end.

Definition not_slash (c : N) : bool := negb (c =? 47).

(** [ ":" domain-spec ] [ dual-cidr-length ] *)
Definition opt_domain_cidr (s : bytes) : option (option bytes * N * N) :=
  let '(d, rest) :=
      match s with
      | c :: t => if c =? 58 then (Some (take_while not_slash t), drop_while not_slash t) else (None, s)
      | [] => (None, s)
      end in
  match d with
  | Some n => if domain_spec n then match dual_cidr rest with Some (a, b) => Some (Some n, a, b) | None => None end else None
  | None => match dual_cidr rest with Some (a, b) => Some (None, a, b) | None => None end
  end.

Definition parse_mech (s : bytes) : option mech :=
  let l := lower s in
  if str_eq l [97; 108; 108] then Some MAll
  else if is_prefix [105; 110; 99; 108; 117; 100; 101; 58] l then                       (* include: *)
    let d := skipn 8 s in if domain_spec d then Some (MInclude d) else None
  else if is_prefix [101; 120; 105; 115; 116; 115; 58] l then                            (* exists: *)
    let d := skipn 7 s in if domain_spec d then Some (MExists d) else None
  else if is_prefix [105; 112; 52; 58] l then                                            (* ip4: *)
    let a := take_while not_slash (skipn 4 s) in
    let r := drop_while not_slash (skipn 4 s) in
    match inet_pton4 a with
    | None => None
    | Some o =>
        match r with
        | [] => Some (MIp4 (octets_to_N o) 32)
        | _ :: n => match cidr_num n 32 with Some v => Some (MIp4 (octets_to_N o) v) | None => None end
        end
    end
  else if is_prefix [105; 112; 54; 58] l then                                            (* ip6: *)
    let a := take_while not_slash (skipn 4 s) in
    let r := drop_while not_slash (skipn 4 s) in
    match inet_pton6 a with
    | None => None
    | Some o =>
        match r with
        | [] => Some (MIp6 (octets_to_N o) 128)
        | _ :: n => match cidr_num n 128 with Some v => Some (MIp6 (octets_to_N o) v) | None => None end
        end
    end
  else if is_prefix [112; 116; 114] l then                                               (* ptr *)
    match skipn 3 s with
    | [] => Some (MPtr None)
    | c :: d => if (c =? 58) && domain_spec d then Some (MPtr (Some d)) else None
    end
  else if is_prefix [109; 120] l then                                                    (* mx *)
    match opt_domain_cidr (skipn 2 s) with Some (d, a, b) => Some (MMx d a b) | None => None end
  else if is_prefix [97] l then                                                          (* a *)
    match opt_domain_cidr (skipn 1 s) with Some (d, a, b) => Some (MA d a b) | None => None end
  else None.

Definition name_char (c : N) : bool := is_alpha c || is_digit c || (c =? 45) || (c =? 95) || (c =? 46).
Definition parse_modifier (s : bytes) : option term :=
  let n := take_while (fun c => negb (c =? 61)) s in
  let r := drop_while (fun c => negb (c =? 61)) s in
  match n, r with
  | c :: _, _ :: v =>
      if negb (is_alpha c && forallb name_char n) then None
      else if str_eq (lower n) [114; 101; 100; 105; 114; 101; 99; 116] then
        (if domain_spec v then Some (TRedirect v) else None)
      else if str_eq (lower n) [101; 120; 112] then
        (if domain_spec v then Some (TExp v) else None)
      else if forallb (fun c => (33 <=? c) && (c <=? 126) && negb (c =? 37)) v then Some TUnknown else None
  | _, _ => None
  end.

Definition parse_term (s : bytes) : option term :=
  match s with
  | [] => None
  | c :: t =>
      let q := if c =? 43 then Some QPlus else if c =? 45 then Some QMinus
               else if c =? 126 then Some QTilde else if c =? 63 then Some QQuest else None in
      match q with
      | Some q' => match parse_mech t with Some m => Some (TDir q' m) | None => None end
      | None =>
          match parse_mech s with
          | Some m => Some (TDir QPlus m)
          | None => parse_modifier s
          end
      end
  end.

Fixpoint parse_terms (l : list bytes) : option (list term) :=
  match l with
  | [] => Some []
  | t :: r => match parse_term t, parse_terms r with
              | Some x, Some xs => Some (x :: xs)
              | _, _ => None
              end
  end.

Definition count_redirect (l : list term) : nat := length (filter (fun t => match t with TRedirect _ => true | _ => false end) l).
Definition count_exp (l : list term) : nat := length (filter (fun t => match t with TExp _ => true | _ => false end) l).

(** the text after "v=spf1" *)
Definition parse_record (body : bytes) : option (list term) :=
  match body with
  | [] => Some []
  | c :: _ => if c =? 32 then parse_terms (split_sp body []) else None
  end.

(* ------------------------------------------------------------------ evaluation *)
Inductive rres := RCode (z : Z) | RLimit | RSkip.

Definition qual_code (q : qual) : Z :=
  match q with QPlus => SPF_PASS | QMinus => SPF_FAIL | QTilde => SPF_SOFTFAIL | QQuest => SPF_NEUTRAL end.

(** outcome of one mechanism: match / no match / abort *)
Inductive mout := Match | NoMatch | Abort (r : rres).

Section Rfc.
Variable D : dns.
Variable X : sess.

Definition ci_eq (a b : bytes) : bool := bytes_eqb (lower a) (lower b).
(** <target-name> is the validated name or an ancestor of it *)
Definition name_under (target v : bytes) : bool :=
  ci_eq v target
  || (Nat.ltb (length target) (length v)
      && ci_eq (skipn (length v - length target) v) target
      && (nth (length v - length target - 1) v 0 =? 46)).

Definition addr_lookup (name : bytes) : addrans := if client_v4 X then d_a D name else d_aaaa D name.
Definition addr_match (l : list N) (c4 c6 : N) : bool :=
  if client_v4 X then existsb (fun a => is_v4mapped a && ip4_matchnet (s_client X) a c4) l
  else existsb (fun a => negb (is_v4mapped a) && ip6_matchnet (s_client X) a c6) l.

Fixpoint ptr_validated (names : list bytes) : list bytes :=
  match names with
  | [] => []
  | n :: r => match addr_lookup n with
              | AList l => if existsb (N.eqb (s_client X)) l then n :: ptr_validated r else ptr_validated r
              | AErr _ => ptr_validated r
              end
  end.

(** the selected record of a TXT answer: exactly one record starting "v=spf1" followed by SP or nothing;
    RSkip when a record starts with something that differs from the version only by case or by what follows *)
Definition select_record (recs : list bytes) : rres + option bytes :=
  let cand := filter (fun r => case_prefix SPF_VERSION r) recs in
  if negb (forallb (fun r => is_prefix SPF_VERSION r && (match skipn 6 r with [] => true | c :: _ => c =? 32 end)) cand)
  then inl RSkip
  else match cand with
       | [] => inr None
       | [r] => inr (Some (skipn 6 r))
       | _ => inl (RCode SPF_PERMERROR)
       end.

Fixpoint rfc_check (fuel : nat) (domain : bytes) (cnt : nat) : rres * nat :=
  match fuel with
  | O => (RSkip, cnt)
  | S f =>
    match d_txt D domain with
    | TxtErr TENoent => (RCode SPF_NONE, cnt)
    | TxtErr TETemp => (RCode SPF_TEMPERROR, cnt)
    | TxtErr _ => (RSkip, cnt)
    | TxtRecs recs =>
      match select_record recs with
      | inl r => (r, cnt)
      | inr None => (RCode SPF_NONE, cnt)
      | inr (Some body) =>
        match parse_record body with
        | None => (RSkip, cnt)
        | Some terms =>
          if Nat.ltb 1 (count_redirect terms) || Nat.ltb 1 (count_exp terms) then (RCode SPF_PERMERROR, cnt) else
          let target (d : option bytes) := match d with Some n => n | None => domain end in
          let eval_mech (m : mech) (cnt : nat) : mout * nat :=
            match m with
            | MAll => (Match, cnt)
            | MIp4 net len => (if client_v4 X && ip4_matchnet (s_client X) net len then Match else NoMatch, cnt)
            | MIp6 net len => (if negb (client_v4 X) && ip6_matchnet (s_client X) net len then Match else NoMatch, cnt)
            | _ =>
              if Nat.leb 10 cnt then (Abort RLimit, S cnt) else
              let cnt := S cnt in
              match m with
              | MInclude d =>
                  match rfc_check f d cnt with
                  | (RCode z, c') =>
                      if (z =? SPF_PASS)%Z then (Match, c')
                      else if (z =? SPF_FAIL)%Z || (z =? SPF_SOFTFAIL)%Z || (z =? SPF_NEUTRAL)%Z then (NoMatch, c')
                      else if (z =? SPF_TEMPERROR)%Z then (Abort (RCode SPF_TEMPERROR), c')
                      else (Abort (RCode SPF_PERMERROR), c')
                  | (r, c') => (Abort r, c')
                  end
              | MA d c4 c6 =>
                  match addr_lookup (target d) with
                  | AList l => (if addr_match l c4 c6 then Match else NoMatch, cnt)
                  | AErr ETemp => (Abort (RCode SPF_TEMPERROR), cnt)
                  | AErr _ => (Abort RSkip, cnt)
                  end
              | MMx d c4 c6 =>
                  match d_mx D (target d) with
                  | MxNoHost | MxNull => (NoMatch, cnt)
                  | MxErr ETemp => (Abort (RCode SPF_TEMPERROR), cnt)
                  | MxErr _ => (Abort RSkip, cnt)
                  | MxList l =>
                      if 65536 <=? fst (hd (0, []) l) then (NoMatch, cnt)                 (* no MX: the implicit one (A record, marked by this priority) is not used *)
                      else if Nat.ltb 10 (length l) then (Abort (RCode SPF_PERMERROR), cnt)
                      else (if addr_match (concat (map snd l)) c4 c6 then Match else NoMatch, cnt)
                  end
              | MPtr d =>
                  (* a client without reverse name at connection time has no PTR record (consistency of the environment) *)
                  match s_remotehost X with [] => (NoMatch, cnt) | _ =>
                  match d_name D (s_client X) with
                  | NErr ELocal => (Abort RSkip, cnt)
                  | NErr _ => (NoMatch, cnt)      (* 5.5: "If a DNS error occurs while doing the PTR RR lookup, then this mechanism fails to match" *)
                  | NList names =>
                      (if existsb (name_under (target d)) (ptr_validated (firstn 10 names)) then Match else NoMatch, cnt)
                  end end
              | MExists d =>
                  match d_a D d with
                  | AList [] => (NoMatch, cnt)
                  | AList _ => (Match, cnt)
                  | AErr ETemp => (Abort (RCode SPF_TEMPERROR), cnt)
                  | AErr _ => (Abort RSkip, cnt)
                  end
              | _ => (NoMatch, cnt)
              end
            end in
          let fix eval_terms (ts : list term) (cnt : nat) : rres * nat :=
            match ts with
            | [] =>
                match filter (fun t => match t with TRedirect _ => true | _ => false end) terms with
                | TRedirect d :: _ =>
                    if Nat.leb 10 cnt then (RLimit, S cnt)
                    else match rfc_check f d (S cnt) with
                         | (RCode z, c') => (RCode (if (z =? SPF_NONE)%Z then SPF_PERMERROR else z), c')
                         | r => r
                         end
                | _ => (RCode SPF_NEUTRAL, cnt)
                end
            | TDir q m :: r =>
                match eval_mech m cnt with
                | (Match, c') => (RCode (qual_code q), c')
                | (NoMatch, c') => eval_terms r c'
                | (Abort x, c') => (x, c')
                end
            | _ :: r => eval_terms r cnt
            end in
          eval_terms terms cnt
        end
      end
    end
  end.

(** check_host() of RFC 7208, 4: the result, or why the comparison is left out *)
Definition rfc_check_host (domain : bytes) : rres :=
  if domain_invalid domain then RSkip else fst (rfc_check 13 domain 0).

End Rfc.

(** does the result of the implementation agree? *)
Definition rfc_agrees (r : rres) (rc : Z) : bool :=
  match r with
  | RSkip => true
  | RLimit => (rc =? SPF_FAIL)%Z || (rc =? SPF_PERMERROR)%Z    (* "exceeding it ends in fail or permerror" *)
  | RCode z => (rc =? z)%Z
  end.

(** C02 — "the server-generated trace header (Received-SPF and Received lines that are syntactically valid header
    fields and contain no client-controlled line breaks)": a checker for a block of header fields, run on the octets in
    front of the client's data in the message qmail-queue received from the implementation.

    A block of header fields (RFC 5322, 2.2): every field starts at the beginning of a line with a name of printable
    US-ASCII characters other than the colon, then a colon, then the body; the body goes on over every following line
    that starts with a blank or a tab; it holds neither NUL nor CR, and LF only as the end of a line; the block ends
    with the end of a line.  Definitions only. *)
From Qv Require Import Common.Bytes Spec.SessionSpec.
Local Open Scope N_scope.

Definition namech (c : N) : bool := (33 <=? c) && (c <=? 126) && negb (c =? 58).

Inductive hst := HFirst | HName | HBody | HStart.

Fixpoint hv (st : hst) (l : bytes) : bool :=
  match l with
  | [] => match st with HFirst | HStart => true | _ => false end
  | c :: r =>
      match st with
      | HFirst => namech c && hv HName r
      | HName => if c =? 58 then hv HBody r else namech c && hv HName r
      | HBody => if c =? 10 then hv HStart r else negb (c =? 0) && negb (c =? 13) && hv HBody r
      | HStart => if (c =? 32) || (c =? 9) then hv HBody r else namech c && hv HName r
      end
  end.

Definition trace_hdr_valid (h : bytes) : bool := hv HFirst h.

(** the checker on a queued message: what stands in front of the last [n] octets (the client's data as queued) *)
Definition handoff_hdr_ok (n : nat) (msg : bytes) : bool :=
  Nat.leb n (length msg) && negb (Nat.eqb n (length msg)) && trace_hdr_valid (firstn (length msg - n) msg).

(** as the correspondence run calls it: [n] = length of the data as queued ([queued_full], the property as stated) *)
Definition handoff_hdr_check (p : subm_par) (lines : list bytes) (msg : bytes) : bool :=
  handoff_hdr_ok (length (queued_full p lines)) msg.

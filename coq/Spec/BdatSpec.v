(** C19 — BDAT chunks are framed exactly and chunk boundaries never alter the message.
    Sending side (Qremote, RFC 3030):  bdat-cmd = "BDAT" SP chunk-size [SP "LAST"] CRLF,
    followed by exactly chunk-size octets.  Short enough to read. *)
From Qv Require Import Common.Bytes.

(** ** what "the message with bare LF normalised to CRLF" means

    [tx_norm m o]: [o] is [m] with every LF that does not follow a CR replaced
    by CRLF; CRLF pairs and all other octets are kept; a CR that is not
    followed by LF (which no valid message contains) is either kept or
    completed to CRLF. *)
Definition hd_not_lf (m : bytes) : Prop := match m with b :: _ => b <> LF | [] => True end.

Inductive tx_norm : bytes -> bytes -> Prop :=
| tn_nil : tx_norm [] []
| tn_crlf m o : tx_norm m o -> tx_norm (CR :: LF :: m) (CR :: LF :: o)
| tn_cr_keep m o : hd_not_lf m -> tx_norm m o -> tx_norm (CR :: m) (CR :: o)
| tn_cr_compl m o : hd_not_lf m -> tx_norm m o -> tx_norm (CR :: m) (CR :: LF :: o)
| tn_lf m o : tx_norm m o -> tx_norm (LF :: m) (CR :: LF :: o)
| tn_other b m o : b <> CR -> b <> LF -> tx_norm m o -> tx_norm (b :: m) (b :: o).

(** the deterministic case: no CR is ever completed (exact for messages without bare CR).
    [pcr] = the previous octet was CR. *)
Fixpoint lf2crlf (pcr : bool) (m : bytes) : bytes :=
  match m with
  | [] => []
  | b :: t => if N.eqb b LF && negb pcr then CR :: LF :: lf2crlf false t
              else b :: lf2crlf (N.eqb b CR) t
  end.

Fixpoint no_bare_cr (m : bytes) : Prop :=
  match m with
  | [] => True
  | b :: t => (b = CR -> match t with c :: _ => c = LF | [] => False end) /\ no_bare_cr t
  end.

(** ** framing *)
Definition S_BDAT : bytes := [66; 68; 65; 84; 32]%N.      (* "BDAT " *)
Definition S_LAST : bytes := [32; 76; 65; 83; 84]%N.      (* " LAST" *)

Definition dec_val (d : bytes) : nat := fold_left (fun a c => 10 * a + (N.to_nat c - 48)) d 0.
(** [d] is the decimal numeral of [n] (no sign, no leading zeros) *)
Definition decimal_of (n : nat) (d : bytes) : Prop :=
  d <> [] /\ Forall (fun c => is_digit c = true) d /\ dec_val d = n /\ (hd 0%N d = 48%N -> d = [48%N]).

(** [w] is the command announcing exactly the payload [p], followed by [p] *)
Definition frame (p : bytes) (last : bool) (w : bytes) : Prop :=
  exists d, decimal_of (length p) d /\ w = S_BDAT ++ d ++ (if last then S_LAST else []) ++ CRLF ++ p.

(** the writes [ws] are the frames of the payloads [ps]; LAST on the final one iff [done] *)
Fixpoint frames (done : bool) (ps ws : list bytes) : Prop :=
  match ps, ws with
  | [], [] => True
  | p :: ps', w :: ws' => frame p (done && match ps' with [] => true | _ => false end) w /\ frames done ps' ws'
  | _, _ => False
  end.

(** The sending side of C19 for one message [msg], chunk size [cs]:
    [ws] = what was handed to the network layer, one element per BDAT command;
    [done] = the transaction ran to its end (no intermediate reply was negative). *)
Definition tx_ok (cs : nat) (msg : bytes) (done : bool) (ws : list bytes) : Prop :=
  exists ps,
    frames done ps ws
    /\ Forall (fun w => length w <= cs) ws             (* command and data together fit the chunk size *)
    /\ (msg <> [] -> ws <> [])
    /\ (if done then tx_norm msg (concat ps)
        else exists k, tx_norm (firstn k msg) (concat ps)).

(** ** boolean checkers, run on the observations of the C code *)
Fixpoint take_digits (w : bytes) : bytes * bytes :=
  match w with
  | b :: t => if is_digit b then let '(d, r) := take_digits t in (b :: d, r) else ([], w)
  | [] => ([], [])
  end.

Fixpoint strip_prefix (p w : bytes) : option bytes :=
  match p, w with
  | [], _ => Some w
  | a :: p', b :: w' => if N.eqb a b then strip_prefix p' w' else None
  | _ :: _, [] => None
  end.

(** parse one write into (payload, last) *)
Definition parse_frame (w : bytes) : option (bytes * bool) :=
  match strip_prefix S_BDAT w with
  | None => None
  | Some r =>
      let '(d, r1) := take_digits r in
      match d with
      | [] => None
      | d0 :: dt =>
          if N.eqb d0 48 && negb (match dt with [] => true | _ => false end) then None else
          let fin (last : bool) (p : bytes) :=
            if Nat.eqb (length p) (dec_val d) then Some (p, last) else None in
          match strip_prefix (S_LAST ++ CRLF) r1 with
          | Some p => fin true p
          | None => match strip_prefix CRLF r1 with
                    | Some p => fin false p
                    | None => None
                    end
          end
      end
  end.

Fixpoint parse_frames (ws : list bytes) : option (list (bytes * bool)) :=
  match ws with
  | [] => Some []
  | w :: ws' => match parse_frame w, parse_frames ws' with
                | Some f, Some fs => Some (f :: fs)
                | _, _ => None
                end
  end.

Fixpoint last_flags_ok (done : bool) (fs : list (bytes * bool)) : bool :=
  match fs with
  | [] => true
  | [(_, l)] => Bool.eqb l done
  | (_, l) :: fs' => negb l && last_flags_ok done fs'
  end.

Definition starts_lf (m : bytes) : bool := match m with b :: _ => N.eqb b LF | [] => false end.

(** [tx_norm_b pre m o]: with [pre = false], decides [tx_norm m o]; with
    [pre = true], decides [exists k, tx_norm (firstn k m) o]. *)
Fixpoint tx_norm_b (pre : bool) (m o : bytes) : bool :=
  match o with
  | [] => pre || match m with [] => true | _ => false end
  | _ =>
  match m with
  | [] => false
  | b :: m' =>
      if N.eqb b CR then
        match m' with
        | c :: m'' =>
            if N.eqb c LF then
              match o with
              | x :: y :: o' => N.eqb x CR && N.eqb y LF && tx_norm_b pre m'' o'
              | [x] => pre && N.eqb x CR
              | [] => false
              end
            else
              match o with
              | x :: y :: o' => N.eqb x CR && (if N.eqb y LF then tx_norm_b pre m' o' else tx_norm_b pre m' (y :: o'))
              | [x] => N.eqb x CR && tx_norm_b pre m' []
              | [] => false
              end
        | [] =>
            match o with
            | [x] => N.eqb x CR
            | [x; y] => N.eqb x CR && N.eqb y LF
            | _ => false
            end
        end
      else if N.eqb b LF then
        match o with
        | x :: y :: o' => N.eqb x CR && N.eqb y LF && tx_norm_b pre m' o'
        | _ => false
        end
      else
        match o with
        | x :: o' => N.eqb x b && tx_norm_b pre m' o'
        | [] => false
        end
  end
  end.

Definition spec_ok_C19_tx (cs : nat) (msg : bytes) (done : bool) (ws : list bytes) : bool :=
  match parse_frames ws with
  | None => false
  | Some fs =>
      last_flags_ok done fs
      && forallb (fun w => Nat.leb (length w) cs) ws
      && (match msg, ws with _ :: _, [] => false | _, _ => true end)
      && tx_norm_b (negb done) msg (concat (map fst fs))
  end.

(** C12 stage 3 — what the documentation (doc/man/Qsmtpd.8, doc/man/filterconf.5 and the comment block of each filter)
    says the individual filters of rcpt_cbs[] decide.  The documented functions are written over the parts of an
    address (local part, domain), the meaning of the list entries, C16's meaning of the list files
    ([fd_spec], [ipbl_file_spec]) and C12's documented three-level value of a setting ([doc_setting]).
    Shared with the model: which file is the effective one ("the more local file overrides": [getfile]) and which
    list is the effective one after "!inherit" ([userconf_get_buffer]; its meaning is the subject of the theorems
    C12_listfile_* ). *)
From Qv Require Import Common.Bytes Gen.GenFilters Model.Filters Model.RealFilters Model.LoadFile
  Spec.FiltersSpec Spec.ControlSpec.
Local Open Scope bool_scope.

(* ------------------------------------------------------------------------------------------------ *)
(** * Addresses and list entries *)

Definition no_at (l : bytes) : bool := negb (has_at l).

(** [a] = local part '@' domain with exactly one '@' (what addrsyntax() lets through, C14) *)
Definition split_addr (a : bytes) : option (bytes * bytes) :=
  match from_first AT_SIGN a with
  | Some (_ :: dom) => if no_at dom then Some (firstn (length a - length dom - 1) a, dom) else None
  | _ => None
  end.

(** the name [s] ends with [e], ASCII case ignored *)
Definition ci_suffixb (e s : bytes) : bool :=
  Nat.leb (length e) (length s) && ci_eqb (skipn (length s - length e) s) e.

(** The four kinds of entries of badmailfrom (comment of badmailfrom.c, Qsmtpd.8):
    1) a complete address: the entire address must match;  2) "@domain": the domain must be this one;
    3) no '@': this domain and all its subdomains;  4) no '@' and a leading '.': everything that ends with it
    (subdomains only).  Case is ignored. *)
Definition doc_bmf_match (loc dom e : bytes) : bool :=
  match e with
  | [] => false
  | c :: rest =>
      if N.eqb c AT_SIGN then ci_eqb rest dom
      else if has_at e then ci_eqb e (loc ++ AT_SIGN :: dom)
      else if N.eqb c DOT_CH then ci_suffixb e dom
      else ci_eqb e dom || ci_suffixb (DOT_CH :: e) dom
  end.

(** badcc: "The format of the file is the same as for badmailfrom" - without kind 4: an entry without '@' always
    means the domain and its subdomains *)
Definition doc_cc_match (loc dom e : bytes) : bool :=
  match e with
  | [] => false
  | c :: rest =>
      if N.eqb c AT_SIGN then ci_eqb rest dom
      else if has_at e then ci_eqb e (loc ++ AT_SIGN :: dom)
      else ci_eqb e dom || ci_suffixb (DOT_CH :: e) dom
  end.

(* ------------------------------------------------------------------------------------------------ *)
(** * The documented outcome of each filter: (result, which policy matched, own reply, check2822 flag) *)

Record dout := mk_dout { d_res : fres; d_type : Z; d_reply : bytes; d_check2822 : N }.

Definition dplain (s : rsession) (r : fres) (t : Z) : dout := mk_dout r t [] (r_check2822 s).

Definition doc_value (global : bool) (uc dc gc : list bytes) (key : bytes) : option (Z * origin) :=
  doc_setting global (level_says uc key) (level_says dc key) (level_says gc key).

(** ** badmailfrom / goodmailfrom: a bounce passes; a sender matched by an entry of the effective badmailfrom list is
    refused ("policy" denial, attributed to the level the list comes from) unless an entry of the effective
    goodmailfrom list matches it too *)
Definition doc_badmailfrom (s : rsession) (fs : fsys) : option dout :=
  match r_mailfrom s with
  | [] => Some (dplain s FPassed 0)
  | mf =>
      match split_addr mf with
      | None => None
      | Some (loc, dom) =>
          match userconf_get_buffer (r_userdir s) fs KEY_BADMAILFROM CfNone true true with
          | UCrash => None
          | UErr => Some (dplain s FError 0)
          | UNone => Some (dplain s FPassed 0)
          | UList t bad =>
              if negb (existsb (doc_bmf_match loc dom) bad) then Some (dplain s FPassed t) else
              match userconf_get_buffer (r_userdir s) fs KEY_GOODMAILFROM CfCheckaddr true false with
              | UCrash => None
              | UErr => Some (dplain s FError t)
              | UNone => Some (dplain s FDeniedUnspec t)
              | UList _ good =>
                  if existsb (doc_bmf_match loc dom) good then Some (dplain s FPassed t) else Some (dplain s FDeniedUnspec t)
              end
          end
      end
  end.

(** ** helo: "helovalid: Mails with invalid helo are rejected. The value is a bitwise OR": the HELO of status h (1 my
    name, 2 [my IP], 3 syntactically invalid, 5 my IP without brackets; as set by HELO/EHLO) is refused when bit h of
    the effective (global) setting is set; else a HELO listed in the effective badhelo file is refused *)
Definition doc_helo (s : rsession) (fs : fsys) (uc dc gc : list bytes) : option dout :=
  match doc_value true uc dc gc KEY_HELOVALID with
  | None => None
  | Some (v, o) =>
      if negb (N.eqb (r_helostatus s) 0) && Z.testbit v (Z.of_N (r_helostatus s))
      then Some (dplain s FDeniedUnspec (origin_code o))
      else
        match getfile (r_userdir s) true fs KEY_BADHELO true with
        | (t, Some buf) => if fd_spec buf (r_helo s) then Some (dplain s FDeniedUnspec t) else Some (dplain s FPassed t)
        | (t, None) => Some (dplain s FPassed t)
        end
  end.

(** ** ipbl / ipwl: the list for the address family of the connection (ipbl, ipwl / ipblv6, ipwlv6), each the most
    local one; a client in a network of the blacklist is refused unless the whitelist exists and is not "no match"
    (a match whitelists; a malformed whitelist lets the mail pass, too); a malformed blacklist blocks nothing *)
Definition doc_listed (ipv4 : bool) (ip buf : bytes) : Z :=
  match buf with
  | [] => 0%Z
  | _ => if ipv4 then ipbl_file_spec 4 in_net4b ip buf else ipbl_file_spec 16 in_net6b ip buf
  end.

Definition doc_ipbl (s : rsession) (fs : fsys) : option dout :=
  let fnb := if r_ipv4 s then NAME_IPBL else NAME_IPBL ++ SUFFIX_V6 in
  let fnw := if r_ipv4 s then NAME_IPWL else NAME_IPWL ++ SUFFIX_V6 in
  match getfile (r_userdir s) true fs fnb true with
  | (t, None) => Some (dplain s FPassed t)
  | (t, Some bl) =>
      if Z.eqb (doc_listed (r_ipv4 s) (r_ip s) bl) 1 then
        match getfile (r_userdir s) true fs fnw true with
        | (_, Some wl) => if Z.eqb (doc_listed (r_ipv4 s) (r_ip s) wl) 0 then Some (dplain s FDeniedUnspec t)
                          else Some (dplain s FPassed t)
        | (_, None) => Some (dplain s FDeniedUnspec t)
        end
      else Some (dplain s FPassed t)
  end.

(** ** block_SoberG: "SoberG's MAIL FROM: foo@bar.com would lead to HELO foo.com": refused with its own 550 when the
    HELO is the local part followed by the last label (with its dot) of the sender address *)
Definition doc_soberg (s : rsession) (uc dc gc : list bytes) : option dout :=
  match r_mailfrom s with
  | [] => Some (dplain s FPassed 0)
  | mf =>
      match doc_value true uc dc gc KEY_SOBERG, split_addr mf with
      | Some (v, o), Some (loc, dom) =>
          if (v <=? 0)%Z then Some (dplain s FPassed (origin_code o)) else
          match from_last DOT_CH dom with
          | None => None
          | Some tld =>
              if ci_eqb (r_helo s) (loc ++ tld)
              then Some (mk_dout FDeniedMsg (origin_code o) REPLY_SOBERG (r_check2822 s))
              else Some (dplain s FPassed (origin_code o))
          end
      | _, _ => None
      end
  end.

(** ** check_strict_rfc2822: "If only one of the recipients does not enable this check the mail will not be rejected":
    the flag stays 0 once it is 0, becomes 0 when this recipient has not enabled the check, else 1; the filter itself
    never refuses *)
Definition doc_check2822 (s : rsession) (uc dc gc : list bytes) : option dout :=
  if N.eqb (r_check2822 s) 0 then Some (mk_dout FPassed 0 [] 0) else
  match doc_value true uc dc gc KEY_CHECK2822 with
  | None => None
  | Some (v, o) => Some (mk_dout FPassed (origin_code o) [] (if Z.eqb v 0 then 0 else 1)%N)
  end.

(** ** nomail: "Reject all mail to this user with the given message. If the file exists but is empty a general
    rejection message will be announced. The message may start with a rejection code ... If the code does not match
    this requirements or is not found at all the code given in the example [550 5.7.1] will be used." *)
Definition doc_code_ok (m : bytes) : bool :=
  match m with
  | x :: d1 :: d2 :: sp1 :: y :: p1 :: d3 :: p2 :: d4 :: sp2 :: _ :: _ =>
      (N.eqb x 52 || N.eqb x 53) && N.eqb y x && is_digit d1 && is_digit d2 && is_digit d3 && is_digit d4
      && N.eqb sp1 32 && N.eqb sp2 32 && N.eqb p1 46 && N.eqb p2 46
  | _ => false
  end.

Definition doc_nomail (s : rsession) (fs : fsys) : option dout :=
  match getfile (r_userdir s) true fs NAME_NOMAIL false with
  | (t, None) => Some (dplain s FPassed t)
  | (t, Some content) =>
      match loadoneliner content with
      | Ok LErr => Some (dplain s FError t)
      | Ok (LOk None) => Some (dplain s FDeniedUnspec t)
      | Ok (LOk (Some line)) =>
          let m := map nomail_clean line in
          Some (mk_dout FDeniedMsg t ((if doc_code_ok m then m else NOMAIL_DEFAULT_CODE ++ m) ++ [13; 10]%N) (r_check2822 s))
      | _ => None
      end
  end.

(** ** badcc: with more than one recipient, refused when an earlier recipient of the transaction is matched by the
    effective badcc list *)
Definition doc_rcpt_listed (a : list bytes) (rcpt : bytes) : option bool :=
  match split_addr rcpt with
  | Some (loc, dom) => Some (existsb (doc_cc_match loc dom) a)
  | None => None
  end.

Fixpoint doc_any_listed (a : list bytes) (rcpts : list bytes) : option bool :=
  match rcpts with
  | [] => Some false
  | r :: rest => match doc_rcpt_listed a r, doc_any_listed a rest with
                 | Some x, Some y => Some (x || y)
                 | _, _ => None
                 end
  end.

Definition doc_badcc (s : rsession) (fs : fsys) : option dout :=
  match r_rcpts s with
  | [] => Some (dplain s FPassed 0)
  | others =>
      match userconf_get_buffer (r_userdir s) fs KEY_BADCC CfCheckaddr true false with
      | UCrash => None
      | UErr => Some (dplain s FError 0)
      | UNone => Some (dplain s FPassed 0)
      | UList t a =>
          match doc_any_listed a others with
          | None => None
          | Some true => Some (dplain s FDeniedUnspec t)
          | Some false => Some (dplain s FPassed t)
          end
      end
  end.

(** ** forceesmtp: a client that does not speak ESMTP is refused when its address is listed in one of the DNS lists of
    the effective forceesmtp file; DNS is an oracle: [answers] are the answers for the usable list names in order.
    The first listing decides; a local resolver error before it is an error; temporary errors and no listing: 4xx. *)
Fixpoint doc_rbl (answers : list N) (again : bool) : rblres :=
  match answers with
  | [] => if again then RblAgain else RblNone
  | a :: rest =>
      if N.eqb a DNS_LOCAL then RblLocal
      else if N.eqb a DNS_TEMP then doc_rbl rest true
      else if N.eqb a DNS_PERM || N.eqb a 0 || N.ltb 240 a then doc_rbl rest again
      else RblHit 0
  end.

Definition rbl_outcome (r : rblres) : fres :=
  match r with RblHit _ => FDeniedUnspec | RblNone => FPassed | RblAgain => FDeniedTemp | RblLocal => FError end.

(** the first [n] answers of the oracle; a missing answer is "no record" *)
Fixpoint take_answers (n : nat) (dns : list N) : list N :=
  match n with
  | O => []
  | S k => match dns with [] => 0%N :: take_answers k [] | a :: d => a :: take_answers k d end
  end.

Definition usable_names (l : nat) (a : list bytes) : list bytes := filter (fun e => Nat.ltb (length e) (256 - l)) a.

Definition doc_forceesmtp (s : rsession) (fs : fsys) : option dout :=
  if r_esmtp s then Some (dplain s FPassed 0) else
  let fnb := if r_ipv4 s then NAME_FORCEESMTP else NAME_FORCEESMTP ++ SUFFIX_V6 in
  match userconf_get_buffer (r_userdir s) fs fnb CfDomainvalid true false with
  | UCrash => None
  | UErr => Some (dplain s FError 0)
  | UNone => Some (dplain s FPassed 0)
  | UList t a =>
      let n := length (usable_names (rbl_prefix_len (r_ipv4 s) (r_ip s)) a) in
      let answers := take_answers n (r_dns s) in
      Some (dplain s (rbl_outcome (doc_rbl answers false)) t)
  end.

(** ** dnsbl / namebl: DNS lists.  [doc_walk]: the oracle's answers for a sequence of lookups; the first listing
    decides and names its list; a local resolver error before it is an error; temporary errors without a listing
    make the result temporary *)
Inductive walkres := WHit (name : bytes) | WNone | WAgain | WLocal.

Fixpoint doc_walk (names : list bytes) (dns : list N) (again : bool) : walkres * list N :=
  match names with
  | [] => ((if again then WAgain else WNone), dns)
  | nm :: rest =>
      let '(a, dns') := match dns with [] => (0%N, []) | x :: d => (x, d) end in
      if N.eqb a DNS_LOCAL then (WLocal, dns')
      else if N.eqb a DNS_TEMP then doc_walk rest dns' true
      else if N.eqb a DNS_PERM || N.eqb a 0 || N.ltb 240 a then doc_walk rest dns' again
      else (WHit nm, dns')
  end.

(** dnsbl: a client listed in one of the usable lists of the effective dnsbl file (user / domain / global, with
    "!inherit") is refused with the filter's own 501 naming the list, unless it is also listed in a list of the
    effective whitednsbl file (user / domain only) *)
Definition doc_dnsbl (s : rsession) (fs : fsys) : option dout :=
  let fnb := if r_ipv4 s then NAME_DNSBL else NAME_DNSBL ++ SUFFIX_V6 in
  let fnw := if r_ipv4 s then NAME_WHITEDNSBL else NAME_WHITEDNSBL ++ SUFFIX_V6 in
  let l := rbl_prefix_len (r_ipv4 s) (r_ip s) in
  match userconf_get_buffer (r_userdir s) fs fnb CfDomainOrInherit true true with
  | UCrash => None
  | UErr => Some (dplain s FError 0)
  | UNone => Some (dplain s FPassed 0)
  | UList t a =>
      match doc_walk (usable_names l a) (r_dns s) false with
      | (WNone, _) => Some (dplain s FPassed t)
      | (WAgain, _) => Some (dplain s FDeniedTemp t)
      | (WLocal, _) => Some (dplain s FError t)
      | (WHit nm, dns') =>
          let refuse := Some (mk_dout FDeniedMsg t (REPLY_DNSBL ++ nm ++ [13; 10]%N) (r_check2822 s)) in
          match userconf_get_buffer (r_userdir s) fs fnw CfDomainvalid false false with
          | UCrash => None
          | UErr => Some (dplain s FError t)
          | UNone => refuse
          | UList _ c =>
              match doc_walk (usable_names l c) dns' false with
              | (WHit _, _) => Some (dplain s FPassed t)
              | (WNone, _) => refuse
              | (WAgain, _) => Some (dplain s FDeniedTemp t)
              | (WLocal, _) => Some (dplain s FError t)
              end
          end
      end
  end.

(** namebl: the domain of the sender and each of its parent domains (what follows a dot) is looked up in every list
    of the effective namebl file, list by list; combinations too long for a DNS name are left out *)
Definition namebl_queries (a : list bytes) (dom : bytes) : list bytes :=
  flat_map (fun e => map (fun _ => e) (filter (fun d => Nat.ltb (length d + S (length e)) 256) (dom :: tails_after_dot dom))) a.

Definition doc_namebl (s : rsession) (fs : fsys) : option dout :=
  match r_mailfrom s with
  | [] => Some (dplain s FPassed 0)
  | mf =>
      match split_addr mf with
      | None => None
      | Some (_, dom) =>
          match userconf_get_buffer (r_userdir s) fs NAME_NAMEBL CfDomainOrInherit true true with
          | UCrash => None
          | UErr => Some (dplain s FError 0)
          | UNone => Some (dplain s FPassed 0)
          | UList t a =>
              match doc_walk (namebl_queries a dom) (r_dns s) false with
              | (WHit nm, _) => Some (mk_dout FDeniedMsg t (REPLY_NAMEBL ++ nm ++ [13; 10]%N) (r_check2822 s))
              | (WLocal, _) => Some (dplain s FError t)
              | (WAgain, _) => Some (dplain s FDeniedTemp t)
              | (WNone, _) => Some (dplain s FPassed t)
              end
          end
      end
  end.

(** ** fromdomain (filterconf.5: "bit 1: reject mail if from domain does not exist; bit 2: ... resolves only to
    localhost addresses; bit 3: ... only to private nets"; comment of fromdomain.c: 0/8 and 127/8, ::1 and :: count as
    localhost, the tables reserved_netsv4 / reserved_netsv6 plus link-local and site-local IPv6 as private).
    [in_net4b] / [in_net6b]: C16's "the address lies in the network". *)
(** the private / reserved networks, written down here from RFC 1918 and the comments of fromdomain.c (10/8, 172.16/12,
    192.168/16; link local 169.254/16; TEST-NET-1..3; benchmarking 192.18/15; ORCHID 2001:10::/28; documentation
    2001:db8::/32) - the tables of the C source have to be these *)
Definition DOC_NETS4 : list (bytes * N) :=
  [([10; 0; 0; 0], 8); ([172; 16; 0; 0], 12); ([192; 168; 0; 0], 16); ([169; 254; 0; 0], 16); ([192; 0; 2; 0], 24);
   ([198; 51; 100; 0], 24); ([203; 0; 113; 0], 24); ([192; 18; 0; 0], 15)]%N.
Definition DOC_NETS6 : list (bytes * N) :=
  [([32; 1; 0; 16; 0; 0; 0; 0; 0; 0; 0; 0; 0; 0; 0; 0], 28); ([32; 1; 13; 184; 0; 0; 0; 0; 0; 0; 0; 0; 0; 0; 0; 0], 32)]%N.

Definition doc_private (a : bytes) : bool :=
  if is_v4mapped a then existsb (fun nl => in_net4b a (fst nl) (snd nl)) DOC_NETS4
  else existsb (fun nl => in_net6b a (fst nl) (snd nl)) DOC_NETS6 || is_linklocal a || is_sitelocal a.

Definition doc_localhost (a : bytes) : bool :=
  if is_v4mapped a then N.eqb (nth 12 a 0%N) 0 || N.eqb (nth 12 a 0%N) 127
  else is_loopback a || is_unspecified a.

Definition doc_unroutable (u : Z) (a : bytes) : bool :=
  (Z.testbit u 2 && doc_private a) || (Z.testbit u 1 && doc_localhost a).

Definition doc_fromdomain (s : rsession) (uc dc gc : list bytes) : option dout :=
  match r_mailfrom s with
  | [] => Some (dplain s FPassed 0)
  | _ =>
      match doc_value true uc dc gc KEY_FROMDOMAIN with
      | None => None
      | Some (u, o) =>
          let t := origin_code o in
          let own m := Some (mk_dout FDeniedMsg t m (r_check2822 s)) in
          if (u <=? 0)%Z then Some (dplain s FPassed t) else
          match r_mx s with
          | [] =>
              (* no mail exchanger known: bit 1 refuses by the result of the MX lookup *)
              if Z.testbit u 0 then
                if Z.eqb (r_fromdomain s) DNS_ERROR_TEMP_Z then own REPLY_FD_TEMP
                else if Z.eqb (r_fromdomain s) DNS_ERROR_PERM_Z then own REPLY_FD_PERM
                else if Z.eqb (r_fromdomain s) 1 then own REPLY_FD_NOMX
                else if Z.eqb (r_fromdomain s) 2 then own REPLY_FD_NULLMX
                else Some (dplain s FPassed t)
              else Some (dplain s FPassed t)
          | mx =>
              if (Z.testbit u 1 || Z.testbit u 2) && forallb (doc_unroutable u) mx then own REPLY_FD_UNROUTABLE
              else Some (dplain s FPassed t)
          end
      end
  end.

(* ------------------------------------------------------------------------------------------------ *)
(** * The checker that runs on the C outputs of the rfilters engine *)

Definition doc_filter (id : N) (s : rsession) (fs : fsys) (uc dc gc : list bytes) : option dout :=
  if N.eqb id ID_BADMAILFROM then doc_badmailfrom s fs
  else if N.eqb id ID_HELO then doc_helo s fs uc dc gc
  else if N.eqb id ID_IPBL then doc_ipbl s fs
  else if N.eqb id ID_SOBERG then doc_soberg s uc dc gc
  else if N.eqb id ID_CHECK2822 then doc_check2822 s uc dc gc
  else if N.eqb id ID_FORCEESMTP then doc_forceesmtp s fs
  else if N.eqb id ID_BADCC then doc_badcc s fs
  else if N.eqb id ID_NOMAIL then doc_nomail s fs
  else if N.eqb id ID_DNSBL then doc_dnsbl s fs
  else if N.eqb id ID_NAMEBL then doc_namebl s fs
  else if N.eqb id ID_FROMDOMAIN then doc_fromdomain s uc dc gc
  else None.

(** what the harness prints: result, *t (only for a refusal), own reply, check2822 *)
Inductive rf_obs := RObs (r : fres) (t : option Z) (reply : bytes) (c2822 : N).

Definition is_refusal (r : fres) : bool := match r with FPassed | FError => false | _ => true end.

Definition obs_of_dout (d : dout) : rf_obs :=
  RObs (d_res d) (if is_refusal (d_res d) then Some (d_type d) else None) (d_reply d) (d_check2822 d).

Definition obs_of_fout (o : fout) : rf_obs :=
  RObs (o_res o) (if is_refusal (o_res o) then Some (o_type o) else None) (o_reply o) (o_check2822 o).

Definition opt_z_eqb (a b : option Z) : bool :=
  match a, b with Some x, Some y => Z.eqb x y | None, None => true | _, _ => false end.

Definition rf_obs_eqb (a b : rf_obs) : bool :=
  match a, b with
  | RObs r1 t1 m1 c1, RObs r2 t2 m2 c2 => fres_eqb r1 r2 && opt_z_eqb t1 t2 && bytes_eqb m1 m2 && N.eqb c1 c2
  end.

(** the documented observation of a case; [None]: outside the documented domain (refused case, unparsable
    configuration, a setting in undocumented syntax, an address that is not local@domain, a filter without spec) *)
Definition rf_doc_case (id : N) (misc mailfrom helo ip rcpts dns mx : bytes) (files : list bytes) : option rf_obs :=
  let m i := nth i misc 0%N in
  let userdir := N.testbit (m 0) 0 in
  if has_nul mailfrom || has_nul helo || has_nul rcpts || negb (Nat.eqb (length ip) 16)
     || match helo with [] => true | _ => false end || Nat.ltb 60 (length files)
     || negb (bytes_okb ip) || negb (forallb bytes_okb files)            (* octets *)
     || (N.ltb 4 (m 4) && negb (N.eqb (m 4) 234)) || negb (Nat.eqb (length mx mod 16) 0) || negb (bytes_okb mx)
  then None else
  match decode_files userdir files with
  | None => None
  | Some fs =>
      match conf_of fs 2, (if userdir then conf_of fs 0 else Some []), conf_of fs 1 with
      | Some gc, Some uc, Some dc =>
          let s := mk_rsession userdir (N.testbit (m 0) 1) (N.testbit (m 0) 2) (N.testbit (m 0) 3) (N.testbit (m 0) 4)
                               (N.land (m 1) 7) (N.land (m 2) 3) mailfrom helo ip (split_lf rcpts []) dns
                               (if N.eqb (m 4) 234 then (-22)%Z else Z.of_N (m 4))
                               (if N.eqb (m 3) 254 then DNS_ERROR_TEMP_Z else if N.eqb (m 3) 253 then DNS_ERROR_PERM_Z
                                else Z.of_N (N.land (m 3) 3))
                               (chunks (length mx) 16 mx) in
          option_map obs_of_dout (doc_filter id s fs uc dc gc)
      | _, _, _ => None
      end
  end.

Definition spec_ok_rf (id : N) (misc mailfrom helo ip rcpts dns mx : bytes) (files : list bytes) (obs : option rf_obs) : verdict :=
  match rf_doc_case id misc mailfrom helo ip rcpts dns mx files with
  | None => VPre
  | Some d => match obs with
              | Some o => if rf_obs_eqb d o then VOk else VBad
              | None => VBad                   (* crash, time-out or a refused configuration where a result is documented *)
              end
  end.

(** C10 — what a syntactically valid SMTP reply is (RFC 5321 4.2), short enough to read.

    A reply with code [code] (three digits) and final separator [c] carrying the
    text pieces [texts] is rendered as: every piece but the last on a line
    "code-piece CRLF", the last piece on "code c piece CRLF". *)
From Qv Require Import Common.Bytes.

Fixpoint render (code : bytes) (c : N) (texts : list bytes) : list bytes :=
  match texts with
  | [] => []
  | [t] => [code ++ [c] ++ t ++ CRLF]
  | t :: ts => (code ++ [DASH] ++ t ++ CRLF) :: render code c ts
  end.

Definition clean (t : bytes) : Prop := Forall (fun b => b <> CR /\ b <> LF /\ b <> 0%N) t.
Definition no_crlf (t : bytes) : Prop := Forall (fun b => b <> CR /\ b <> LF) t.

(** The full statement of C10 for one net_writen call:
    lines <= 512 octets including CRLF (3 + 1 + |text| + 2), same code on all
    lines, '-' on all but the last, no CR/LF inside a line, the embedded text
    complete and in order; and no Crash (no out-of-bounds access). *)
Definition valid_reply_for (code : bytes) (c : N) (payload : bytes) (ls : list bytes) : Prop :=
  exists texts, texts <> [] /\ ls = render code c texts
    /\ concat texts = payload
    /\ Forall (fun t => length t <= 506) texts
    /\ Forall no_crlf texts.

(** precondition on s[0]: "NNNc" + text, short enough (the C asserts 3 < len < 510) *)
Definition pre_s0 (s0 code : bytes) (c : N) (t0 : bytes) : Prop :=
  s0 = code ++ [c] ++ t0 /\ length code = 3 /\ length s0 < 510.

(** boolean checker for C output (used by the failing-input search) *)
Definition line_ok_b (code : bytes) (sep : N) (l : bytes) : bool :=
  Nat.leb (length l) 512 && Nat.leb 6 (length l)
  && bytes_eqb (firstn 3 l) code && N.eqb (nth 3 l 0%N) sep
  && ends_crlf l && no_crlf_b (firstn (length l - 2) l).

Fixpoint lines_ok_b (code : bytes) (c : N) (ls : list bytes) : bool :=
  match ls with
  | [] => false
  | [l] => line_ok_b code c l
  | l :: ls' => line_ok_b code DASH l && lines_ok_b code c ls'
  end.

Definition payload_of (ls : list bytes) : bytes :=
  concat (map (fun l => firstn (length l - 6) (skipn 4 l)) ls).

Definition spec_ok_C10 (s0 : bytes) (parts : list bytes) (ls : list bytes) : bool :=
  lines_ok_b (firstn 3 s0) (nth 3 s0 0%N) ls
  && bytes_eqb (payload_of ls) (skipn 4 s0 ++ concat parts).

(** C04 — what a well-formed, truthful Qremote delivery report is.

    Mathematical objects: the server's behaviour is a [script] (one [event] per
    line read); [take_reply] cuts the next SMTP reply off a script by the RFC 5321
    grammar (lines "ddd-text" continue, "ddd text" ends; first digit 2..5), so
    "the server's reply to the i-th command" is [reply_at i script] whatever the
    client does.  Commands are answered in order: reply 0 answers MAIL FROM,
    reply k answers the k-th RCPT TO (1-based), reply n+1 answers DATA and reply
    n+2 the end of the message data.

    The status stream is cut at its NUL bytes by [split0].

    [spec_ok_C04 input observation] is the property as a boolean, clause by
    clause; it is the function run on the observations of the C program, and
    [C04_holds] (what the theorems are about) is "it says true". *)
From Qv Require Import Common.Bytes Model.QrEnvelope.
Local Open Scope bool_scope.

(* ------------------------------------------------------------------ replies *)
(** "ddd" ++ (" " | "-") ++ text with 2 <= first digit <= 5: the reply code *)
Definition line_code (l : bytes) : option nat :=
  match l with
  | a :: b :: c :: sep :: _ =>
      if N.leb 50 a && N.leb a 53 && is_digit b && is_digit c && (N.eqb sep SP || N.eqb sep DASH)
      then Some (100 * (N.to_nat a - 48) + 10 * (N.to_nat b - 48) + (N.to_nat c - 48))
      else None
  | _ => None
  end.
Definition is_cont (l : bytes) : bool := N.eqb (nth 3 l 0%N) DASH.

(** the rest of a multi-line reply after a continuation line *)
Fixpoint skip_cont (scr : script) : option script :=
  match scr with
  | EvLine l :: scr' =>
      match line_code l with
      | Some _ => if is_cont l then skip_cont scr' else Some scr'
      | None => None
      end
  | _ => None
  end.

Inductive reply :=
| RComplete (code : nat) (multi : bool) (rest : script)  (* a whole reply; code of its first line *)
| RBrokenFirst                                           (* no reply line where one is due *)
| RBrokenCont (code : nat).                              (* a reply that starts well and does not end *)

Definition take_reply (scr : script) : reply :=
  match scr with
  | EvLine l :: scr' =>
      match line_code l with
      | Some c =>
          if is_cont l then
            match skip_cont scr' with Some r => RComplete c true r | None => RBrokenCont c end
          else RComplete c false scr'
      | None => RBrokenFirst
      end
  | _ => RBrokenFirst
  end.

(** the i-th reply of the script, if the replies before it are whole *)
Fixpoint reply_at (i : nat) (scr : script) : reply :=
  match i with
  | O => take_reply scr
  | S i' => match take_reply scr with RComplete _ _ rest => reply_at i' rest | _ => RBrokenFirst end
  end.

Definition reply_code (r : reply) : option nat :=
  match r with RComplete c _ _ => Some c | RBrokenCont c => Some c | RBrokenFirst => None end.
Definition reply_whole (r : reply) : bool := match r with RComplete _ _ _ => true | _ => false end.

Definition is_2xx (c : nat) : bool := Nat.leb 200 c && Nat.leb c 299.
Definition is_3xx (c : nat) : bool := Nat.leb 300 c && Nat.leb c 399.
Definition is_4xx (c : nat) : bool := Nat.leb 400 c && Nat.leb c 499.
Definition is_5xx (c : nat) : bool := Nat.leb 500 c && Nat.leb c 599.

(* ------------------------------------------------------------------ reports *)
Definition L_r : N := 114%N.  Definition L_s : N := 115%N.  Definition L_h : N := 104%N.
Definition L_K : N := 75%N.   Definition L_Z : N := 90%N.   Definition L_D : N := 68%N.
Definition is_rcpt_letter (b : N) : bool := N.eqb b L_r || N.eqb b L_s || N.eqb b L_h.
Definition is_msg_letter (b : N) : bool := N.eqb b L_K || N.eqb b L_Z || N.eqb b L_D.

(** a report sequence as bytes: every report followed by NUL *)
Definition flat (reps : list bytes) : bytes := concat (map (fun r => r ++ [0%N]) reps).

(** cut at the NUL bytes: (NUL-terminated pieces, unterminated rest) *)
Fixpoint split0 (s : bytes) : list bytes * bytes :=
  match s with
  | [] => ([], [])
  | x :: s' =>
      let '(rs, tl) := split0 s' in
      if N.eqb x 0 then ([] :: rs, tl)
      else match rs with
           | [] => ([], x :: tl)
           | r :: rs' => ((x :: r) :: rs', tl)
           end
  end.

Fixpoint take_while {A} (f : A -> bool) (l : list A) : list A :=
  match l with x :: l' => if f x then x :: take_while f l' else [] | [] => [] end.

(** the recipient report of reply code [c] must carry this letter *)
Definition letter_matches (letter : N) (c : nat) : bool :=
  (N.eqb letter L_r && is_2xx c) || (N.eqb letter L_s && is_4xx c) || (N.eqb letter L_h && is_5xx c).

(** recipient reports are justified: MAIL FROM was answered 2xx by a whole reply and
    the k-th report's letter is the class of the k-th RCPT TO reply *)
Fixpoint letters_match_from (idx : nat) (scr : script) (rl : list N) : bool :=
  match rl with
  | [] => true
  | l :: rl' =>
      match reply_code (reply_at idx scr) with
      | Some c => letter_matches l c && letters_match_from (S idx) scr rl'
      | None => false
      end
  end.
Definition mail_accepted (scr : script) : bool :=
  match take_reply scr with RComplete c _ _ => is_2xx c | _ => false end.

(* ------------------------------------------------------------------ commands *)
Definition s_MAIL : bytes := [77; 65; 73; 76; 32; 70; 82; 79; 77; 58; 60]%N.        (* "MAIL FROM:<" *)
Definition s_RCPT : bytes := [82; 67; 80; 84; 32; 84; 79; 58; 60]%N.                (* "RCPT TO:<" *)
Definition s_GT : bytes := [62]%N.
Definition s_SIZE : bytes := [32; 83; 73; 90; 69; 61]%N.                            (* " SIZE=" *)
Definition s_BODY7 : bytes := [32; 66; 79; 68; 89; 61; 55; 66; 73; 84]%N.           (* " BODY=7BIT" *)
Definition s_BODY8 : bytes := [32; 66; 79; 68; 89; 61; 56; 66; 73; 84; 77; 73; 77; 69]%N.
Definition s_DATA : bytes := [68; 65; 84; 65; 13; 10]%N.
Definition s_QUIT : bytes := [81; 85; 73; 84; 13; 10]%N.
Definition s_DOT : bytes := [46; 13; 10]%N.

Definition mail_line (i : input) (params : bytes) : bytes := s_MAIL ++ cstr (i_sender i) ++ s_GT ++ params ++ CRLF.
Definition rcpt_line (r : bytes) : bytes := s_RCPT ++ cstr r ++ s_GT ++ CRLF.
Definition mail_params (i : input) : list bytes :=
  [ []; s_BODY7; s_BODY8;
    s_SIZE ++ cstr (i_sizestr i); s_SIZE ++ cstr (i_sizestr i) ++ s_BODY7; s_SIZE ++ cstr (i_sizestr i) ++ s_BODY8 ].
Definition end_of_data (i : input) : bytes := if i_lastlf i then s_DOT else CRLF ++ s_DOT.

(** what may follow the envelope commands; the flag says whether DATA is in it *)
Definition tails (i : input) : list (bool * bytes) :=
  [ (false, []); (false, s_QUIT); (true, s_DATA); (true, s_DATA ++ s_QUIT);
    (true, s_DATA ++ i_body i ++ end_of_data i); (true, s_DATA ++ i_body i ++ end_of_data i ++ s_QUIT) ].

(** [net] = MAIL FROM:<sender> [parameters], then RCPT TO:<r> for the first [j] recipients in
    order, once each, then a permitted tail; no recipient report without its command; DATA only
    after all RCPT TO and with an accepted recipient *)
Definition cmds_ok (i : input) (rl : list N) (net : bytes) : bool :=
  (bytes_eqb net [] && Nat.eqb (length rl) 0)
  || existsb (fun j =>
       Nat.leb (length rl) j &&
       existsb (fun p =>
         existsb (fun t =>
           bytes_eqb net (mail_line i p ++ concat (map rcpt_line (firstn j (i_rcpts i))) ++ snd t)
           && (negb (fst t) || (existsb (N.eqb L_r) rl && Nat.eqb j (length (i_rcpts i)))))
         (tails i)) (mail_params i))
     (seq 0 (S (length (i_rcpts i)))).

(* ------------------------------------------------------------------ the property *)
(** the clauses that speak about the report letters (first byte of every report, in order)
    and the socket bytes *)
Definition spec_letters (i : input) (letters : list N) (net : bytes) : bool :=
  let n := length (i_rcpts i) in
  let rl := take_while is_rcpt_letter letters in        (* recipient reports *)
  let ml := skipn (length rl) letters in                (* what follows them *)
  (* a non-empty sequence of reports *)
  negb (Nat.eqb (length letters) 0)
  (* at most one recipient report per recipient, then at most one message report, nothing else *)
  && Nat.leb (length rl) n && Nat.leb (length ml) 1 && forallb is_msg_letter ml
  (* letters r/s/h exactly for 2xx/4xx/5xx replies to that RCPT TO, in order *)
  && (Nat.eqb (length rl) 0 || mail_accepted (i_script i)) && letters_match_from 1 (i_script i) rl
  (* message report present when a recipient was accepted or none was reported *)
  && (negb (existsb (N.eqb L_r) rl || Nat.eqb (length rl) 0) || Nat.eqb (length ml) 1)
  (* K only for a 2xx answer to the end of data, all recipients answered, one accepted *)
  && (negb (existsb (N.eqb L_K) ml)
      || (match reply_code (reply_at (n + 2) (i_script i)) with Some c => is_2xx c | None => false end
          && Nat.eqb (length rl) n && existsb (N.eqb L_r) rl))
  (* the commands *)
  && cmds_ok i rl net.

Definition spec_ok_C04 (i : input) (o : obs) : bool :=
  match o with
  | Obs code status net =>
      let '(reps, rest) := split0 status in
      (* exit status 0; every byte of the stream belongs to a NUL-terminated, non-empty report *)
      Nat.eqb code 0 && bytes_eqb rest [] && forallb (fun r => negb (Nat.eqb (length r) 0)) reps
      && spec_letters i (map (fun r => hd 0%N r) reps) net
  | _ => false
  end.

Definition C04_holds (i : input) (o : obs) : Prop := spec_ok_C04 i o = true.

(* ------------------------------------------------------------------ known classes (findings) *)
(** the next [k] replies are whole *)
Fixpoint whole_replies (k : nat) (scr : script) : bool :=
  match k with
  | O => true
  | S k' => match take_reply scr with RComplete _ _ rest => whole_replies k' rest | _ => false end
  end.

(** F-C04-5: PIPELINING, MAIL FROM refused by a whole reply, and one of the n replies that
    are then drained is missing or broken: a second message report is written *)
Definition class_dup (i : input) : bool :=
  has (i_ext i) 2 && negb (Nat.eqb (length (i_rcpts i)) 0) &&
  match take_reply (i_script i) with
  | RComplete c _ rest => negb (is_2xx c) && negb (whole_replies (length (i_rcpts i)) rest)
  | _ => false
  end.

(** F-C04-2: after an accepted recipient, the reply to a later RCPT TO starts with a non-2xx
    continuation line and does not end: the exit-path report is appended to the open
    recipient report and no message report exists *)
Fixpoint merge_scan (k : nat) (accepted : bool) (scr : script) : bool :=
  match k with
  | O => false
  | S k' =>
      match take_reply scr with
      | RComplete c _ rest => merge_scan k' (accepted || is_2xx c) rest
      | RBrokenCont c => accepted && negb (is_2xx c)
      | RBrokenFirst => false
      end
  end.
Definition class_merge (i : input) : bool :=
  match take_reply (i_script i) with
  | RComplete c _ rest => is_2xx c && merge_scan (length (i_rcpts i)) false rest
  | _ => false
  end.

(** F-C04-3: a 3xx reply to RCPT TO is reported with the letter h *)
Fixpoint scan_3xx (k : nat) (scr : script) : bool :=
  match k with
  | O => false
  | S k' =>
      match take_reply scr with
      | RComplete c _ rest => is_3xx c || scan_3xx k' rest
      | RBrokenCont c => is_3xx c
      | RBrokenFirst => false
      end
  end.
Definition class_3xx (i : input) : bool :=
  match take_reply (i_script i) with
  | RComplete c _ rest => is_2xx c && scan_3xx (length (i_rcpts i)) rest
  | _ => false
  end.

(** F-C04-4: without PIPELINING the commands go through net_writen(), which folds a line
    of more than 510 octets as if it were a multi-line reply *)
Definition class_longcmd (i : input) : bool :=
  negb (has (i_ext i) 2) &&
  (existsb (fun p => Nat.ltb 512 (length (mail_line i p))) (mail_params i)
   || existsb (fun r => Nat.ltb 512 (length (rcpt_line r))) (i_rcpts i)).

(** F-C04-6: send_data() reads one line of the reply to DATA: the rest of a multi-line 354
    reply is taken for the reply to the end of data *)
Definition class_ml354 (i : input) : bool :=
  match reply_at (length (i_rcpts i) + 1) (i_script i) with
  | RComplete c multi _ => Nat.eqb c 354 && multi
  | RBrokenCont c => Nat.eqb c 354
  | RBrokenFirst => false
  end.

Definition known_class (i : input) : bool :=
  class_dup i || class_merge i || class_3xx i || class_longcmd i || class_ml354 i.

(** C20, "routes first": which smtproutes.d file / smtproutes line decides, as a readable
    reference function, and the boolean checker run on the C outputs. *)
From Coq Require Import List NArith Bool Arith.
From Qv Require Import Common.Bytes Gen.GenMx Model.Mx Model.MxRoute.
Import ListNotations.
Local Open Scope bool_scope.

(** the suffixes of [s] that start at a dot, longest first: "a.b.c" -> ".b.c", ".c" *)
Fixpoint dot_suffixes (s : bytes) : list bytes :=
  match s with
  | [] => []
  | x :: r => if N.eqb x DOT then s :: dot_suffixes r else dot_suffixes r
  end.

(** documented probe order: the exact name, "*" + successively shorter dot suffixes, "default" *)
Definition probe_names (remhost : bytes) : list bytes :=
  remhost :: map (cons STAR) (dot_suffixes remhost) ++ [default_name].

(** content of the first name in the list that exists as a file *)
Fixpoint first_file (files : list (bytes * bytes)) (names : list bytes) : option bytes :=
  match names with
  | [] => None
  | n :: r => match assoc n files with
              | Some c => Some c
              | None => first_file files r
              end
  end.

(** control/smtproutes: the first syntactically valid line whose pattern is empty or matches *)
Definition routes_ref (cfg : route_cfg) (remhost : bytes) : route_result :=
  match routes_file cfg with
  | None => Route None ROUTE_DEFAULT_PORT
  | Some content =>
      match find (line_matches remhost) (filter hascolon_ok (load_lines content)) with
      | Some l => eval_line cfg l
      | None => Route None ROUTE_DEFAULT_PORT
      end
  end.

Definition route_ref (cfg : route_cfg) (remhost : bytes) : route_result :=
  if dir_exists cfg then
    match first_file (dir_files cfg) (probe_names remhost) with
    | Some content => eval_file cfg content
    | None => routes_ref cfg remhost
    end
  else routes_ref cfg remhost.

(** target names the statement is about: at most 254 octets, so that no probed name exceeds NAME_MAX *)
Definition pre_C20_route (cfg : route_cfg) (remhost : bytes) : bool :=
  Nat.leb (length remhost) 254
  && match route_ref cfg remhost with RouteOther => false | _ => true end.

Definition opt_addrs_eqb (a b : option (list addr)) : bool :=
  match a, b with
  | None, None => true
  | Some x, Some y => (fix eq (p q : list addr) := match p, q with
                                                   | [], [] => true
                                                   | u :: p', v :: q' => list_eqb u v && eq p' q'
                                                   | _, _ => false
                                                   end) x y
  | _, _ => false
  end.

Definition route_result_eqb (a b : route_result) : bool :=
  match a, b with
  | RouteFatal, RouteFatal => true
  | RouteOther, RouteOther => true
  | Route m p, Route m' p' => opt_addrs_eqb m m' && N.eqb p p'
  | _, _ => false
  end.

Definition spec_ok_C20_route (cfg : route_cfg) (remhost : bytes) (obs : route_result) : bool :=
  route_result_eqb (route_ref cfg remhost) obs.

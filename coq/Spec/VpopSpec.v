(** C13 — "For a domain found in users/cdb, RCPT TO is accepted when the mailbox exists under the domain
    directory - a directory named like the local part, a .qmail-<local> or .qmail-<local>-default file (dots
    written as colons), a .qmail-<prefix>-default file for a dash-separated prefix of the local part, or a
    .qmail-default that is not the line configured in control/vpopbounce - and is rejected with 550 5.1.1
    otherwise.  No local part can make the server treat a file or directory outside the domain directory as a
    mailbox or read configuration from there."

    The domain directory is any function [fs : name -> entry] (what one lookup of a name relative to the
    directory yields).  Everything here is written with literal bytes, independent of the generated constants. *)
From Qv Require Import Common.Bytes Gen.GenVpop Model.Vpop.

Definition SLASH : N := 47%N.
Definition COLON : N := 58%N.
Definition QMAIL : bytes := [46; 113; 109; 97; 105; 108; 45]%N.          (* ".qmail-" *)
Definition DEFAULT : bytes := [100; 101; 102; 97; 117; 108; 116]%N.       (* "default" *)
Definition DASHDEFAULT : bytes := DASH :: DEFAULT.                        (* "-default" *)

(** dots written as colons *)
Definition colons (l : bytes) : bytes := map (fun b => if N.eqb b DOT then COLON else b) l.

(** a single path component that is neither the directory itself nor its parent *)
Definition component (n : name) : Prop := ~ In SLASH n /\ n <> [DOT] /\ n <> [DOT; DOT].

(** C13_confined: what is handed to openat()/get_dirfd() relative to the domain directory *)
Definition confined (ps : list probe) : Prop := Forall (fun p => component (probe_name p)) ps.

(** a .qmail file "exists": it can be opened, or it is there but may not be read (EACCES) *)
Definition present (e : entry) : Prop :=
  match e with EFile _ | EDir => True | EErr c => c = VP_EACCES | EAbsent => False end.

(** a lookup that neither finds the name nor says it does not exist: the server answers with a temporary
    error (4xx), neither acceptance nor 550 *)
Definition dir_hard (e : entry) : Prop :=
  match e with EErr c => c <> VP_ENOENT /\ c <> VP_ENOTDIR /\ c <> VP_ENAMETOOLONG | _ => False end.
Definition qm_hard (e : entry) : Prop :=
  match e with EErr c => c <> VP_ENOENT /\ c <> VP_EISDIR /\ c <> VP_ENAMETOOLONG /\ c <> VP_EACCES | _ => False end.

(** contents [c] of .qmail-default are the bounce line [vb] as the server compares them *)
Definition bounce_line (vb c : bytes) : Prop := cstr (firstn (2 * length vb) c) = vb.

Section Forms.
  Variable fs : name -> entry.
  Variable vb : option bytes.        (* control/vpopbounce, None when not configured *)
  Variable local : bytes.

  Definition form_dir : Prop := fs local = EDir.
  Definition form_qmail : Prop := present (fs (QMAIL ++ colons local)).
  Definition form_qmail_default : Prop := present (fs (QMAIL ++ colons local ++ DASHDEFAULT)).
  Definition form_prefix : Prop :=
    exists pre post, local = pre ++ DASH :: post /\ present (fs (QMAIL ++ colons pre ++ DASHDEFAULT)).
  Definition bounces : Prop :=
    match vb, fs (QMAIL ++ DEFAULT) with
    | Some b, EFile c => bounce_line b c
    | _, _ => False
    end.
  Definition form_catchall : Prop := present (fs (QMAIL ++ DEFAULT)) /\ ~ bounces.

  (** the mailbox exists *)
  Definition mailbox : Prop :=
    component local /\ (form_dir \/ form_qmail \/ form_qmail_default \/ form_prefix \/ form_catchall).

  (** some lookup the decision depends on fails for another reason than "no such name", or a name does not
      fit PATH_MAX *)
  Definition io_error : Prop :=
    VP_PATH_MAX <= length local + (length QMAIL + length DASHDEFAULT)
    \/ dir_hard (fs local)
    \/ qm_hard (fs (QMAIL ++ colons local))
    \/ qm_hard (fs (QMAIL ++ colons local ++ DASHDEFAULT))
    \/ (exists pre post, local = pre ++ DASH :: post /\ qm_hard (fs (QMAIL ++ colons pre ++ DASHDEFAULT)))
    \/ qm_hard (fs (QMAIL ++ DEFAULT))
    \/ (vb <> None /\ fs (QMAIL ++ DEFAULT) = EDir).
End Forms.

(** users/cdb has a record for the domain and its path is a directory *)
Definition domain_found (db : cdb) (domain : bytes) : Prop :=
  length domain + 3 < VP_CDBKEY /\
  exists l, db = Some l /\
    exists pre post, l = pre ++ (domain, DomTree) :: post /\ Forall (fun kv => fst kv <> domain) pre.

(** ** boolean versions (run on the C observations) *)
Definition component_b (n : name) : bool :=
  negb (mem SLASH n) && negb (bytes_eqb n [DOT]) && negb (bytes_eqb n [DOT; DOT]).
Definition confined_b (ps : list probe) : bool := forallb (fun p => component_b (probe_name p)) ps.

Definition present_b (e : entry) : bool :=
  match e with EFile _ | EDir => true | EErr c => N.eqb c VP_EACCES | EAbsent => false end.
Definition dir_hard_b (e : entry) : bool :=
  match e with EErr c => negb (N.eqb c VP_ENOENT) && negb (N.eqb c VP_ENOTDIR) && negb (N.eqb c VP_ENAMETOOLONG) | _ => false end.
Definition qm_hard_b (e : entry) : bool :=
  match e with
  | EErr c => negb (N.eqb c VP_ENOENT) && negb (N.eqb c VP_EISDIR) && negb (N.eqb c VP_ENAMETOOLONG) && negb (N.eqb c VP_EACCES)
  | _ => false
  end.

(** all [pre] with local = pre ++ '-' :: post, shortest first *)
Fixpoint dash_prefixes (pre rest : bytes) : list bytes :=
  match rest with
  | [] => []
  | b :: rest' => (if N.eqb b DASH then [pre] else []) ++ dash_prefixes (pre ++ [b]) rest'
  end.

Section FormsB.
  Variable fs : name -> entry.
  Variable vb : option bytes.
  Variable local : bytes.

  Definition bounces_b : bool :=
    match vb, fs (QMAIL ++ DEFAULT) with
    | Some b, EFile c => bytes_eqb (cstr (firstn (2 * length b) c)) b
    | _, _ => false
    end.
  Definition is_dir_b (e : entry) : bool := match e with EDir => true | _ => false end.
  Definition forms1_b : bool :=
    is_dir_b (fs local) || present_b (fs (QMAIL ++ colons local)) || present_b (fs (QMAIL ++ colons local ++ DASHDEFAULT)).
  Definition form_prefix_b : bool :=
    existsb (fun pre => present_b (fs (QMAIL ++ colons pre ++ DASHDEFAULT))) (dash_prefixes [] local).
  Definition form_catchall_b : bool := present_b (fs (QMAIL ++ DEFAULT)) && negb bounces_b.
  Definition mailbox_b : bool := component_b local && (forms1_b || form_prefix_b || form_catchall_b).
  Definition io_error_b : bool :=
    (VP_PATH_MAX <=? length local + (length QMAIL + length DASHDEFAULT))
    || dir_hard_b (fs local)
    || qm_hard_b (fs (QMAIL ++ colons local))
    || qm_hard_b (fs (QMAIL ++ colons local ++ DASHDEFAULT))
    || existsb (fun pre => qm_hard_b (fs (QMAIL ++ colons pre ++ DASHDEFAULT))) (dash_prefixes [] local)
    || qm_hard_b (fs (QMAIL ++ DEFAULT))
    || (match vb with Some _ => true | None => false end && is_dir_b (fs (QMAIL ++ DEFAULT))).
End FormsB.

Definition domain_state (db : cdb) (domain : bytes) : option domstate :=
  match db with
  | None => None
  | Some l => match find (fun kv => bytes_eqb (fst kv) domain) l with Some kv => Some (snd kv) | None => None end
  end.

(** the checker: [rc] = return value of user_exists(), [conf] = whose filterconf became the user's configuration
    (0 none, 1 a user directory inside the domain directory, 2 the domain directory's own, 3 one outside the
    domain directory), [ps] = the opens relative to the domain directory.
    For a domain with a record whose path is a directory: confinement always; accepted (1 / 4 / 2 by form)
    only if the mailbox exists, 0 only if it does not, an error code only if a lookup failed hard; without a
    hard failure the answer is therefore exactly "exists".  Otherwise: 5 for a domain without record, 0 when the
    path is no directory, and nothing opened. *)
Definition spec_ok_C13 (db : cdb) (lay : list (name * entry)) (vbfile : option bytes) (domain local : bytes)
    (rc : Z) (conf : N) (ps : list probe) : bool :=
  let fs := fs_of_layout lay in
  let vb := vpopbounce_of vbfile in
  confined_b ps && (N.leb conf 1) &&
  (if negb (component_b local) then Z.eqb rc 0 && match ps with [] => true | _ => false end
   else if VP_CDBKEY <=? length domain + 3 then Z.ltb rc 0 && match ps with [] => true | _ => false end
   else match domain_state db domain with
   | None => Z.eqb rc 5 && match ps with [] => true | _ => false end
   | Some DomTree =>
       if Z.ltb 0 rc then
         mailbox_b fs vb local &&
         (if Z.eqb rc 1 then forms1_b fs local
          else if Z.eqb rc 4 then form_prefix_b fs local
          else if Z.eqb rc 2 then form_catchall_b fs vb
          else false) &&
         (if N.eqb conf 1 then Z.eqb rc 1 && is_dir_b (fs local) else true)
       else if Z.eqb rc 0 then negb (mailbox_b fs vb local)
       else io_error_b fs vb local
   | Some _ => Z.eqb rc 0 && match ps with [] => true | _ => false end
   end).

(** ** the reply to RCPT TO (observation of the real addrparse()) *)
Definition REPLY_550 : bytes := [53; 53; 48; 32; 53; 46; 49; 46; 49; 32]%N.      (* "550 5.1.1 " *)
Definition starts_with (p l : bytes) : bool := bytes_eqb (firstn (length p) l) p.
Definition nil_b {A} (l : list A) : bool := match l with [] => true | _ => false end.

(** [rc] = return value of addrparse() (0 accepted, -1 refused after a reply was written, > 0 error code),
    [reply] = what it wrote. *)
Definition spec_ok_C13_rcpt (db : cdb) (lay : list (name * entry)) (vbfile : option bytes) (domain local : bytes)
    (rc : Z) (reply : bytes) (conf : N) (ps : list probe) : bool :=
  let l := map to_lower local in
  let d := map to_lower domain in
  let fs := fs_of_layout lay in
  let vb := vpopbounce_of vbfile in
  confined_b ps && (N.leb conf 1) &&
  (if negb (component_b l) then Z.eqb rc (-1) && starts_with REPLY_550 reply && nil_b ps
   else if VP_CDBKEY <=? length d + 3 then Z.ltb 0 rc && nil_b ps
   else match domain_state db d with
   | None => Z.eqb rc 0 && nil_b reply && nil_b ps           (* no vpopmail domain: nothing to check here *)
   | Some DomTree =>
       if Z.eqb rc 0 then mailbox_b fs vb l && nil_b reply
       else if Z.eqb rc (-1) then negb (mailbox_b fs vb l) && starts_with REPLY_550 reply
       else Z.ltb 0 rc && io_error_b fs vb l
   | Some _ => Z.eqb rc (-1) && starts_with REPLY_550 reply && nil_b ps
   end).

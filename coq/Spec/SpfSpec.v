(** C11 — what is claimed about SPF evaluation, as predicates on the observable
    outcome (result code, resolver calls, xmitstat.spfexp, the Received-SPF
    bytes), and the boolean checker [spec_ok_C11] that is run on the outputs of
    the C implementation.

    Property text (properties.jsonl, C11): "... SPF evaluation terminates with
    one of the RFC 7208 results ... The number of DNS-querying terms evaluated
    never exceeds the RFC limit no matter how include and redirect refer to each
    other (exceeding it ends in fail or permerror), and text obtained from DNS
    never puts line breaks or non-ASCII bytes into the Received-SPF header or an
    SMTP reply." *)
From Qv Require Import Common.Bytes Gen.GenSpf Model.SpfBase Model.SpfEnv Model.SpfMacro Model.Spf.
Local Open Scope N_scope.

(** the values check_host() may return: the seven RFC results (permerror has the
    codes 5 and 8 in this code base) and -1 = local error, errno set *)
Definition result_codes : list Z :=
  [SPF_NONE; SPF_PASS; SPF_NEUTRAL; SPF_SOFTFAIL; SPF_FAIL; SPF_PERMERROR; SPF_TEMPERROR; SPF_DNS_HARD_ERROR; (-1)%Z].
Definition result_ok (z : Z) : bool := existsb (Z.eqb z) result_codes.
(** the RFC results proper *)
Definition rfc_codes : list Z :=
  [SPF_NONE; SPF_PASS; SPF_NEUTRAL; SPF_SOFTFAIL; SPF_FAIL; SPF_PERMERROR; SPF_TEMPERROR; SPF_DNS_HARD_ERROR].

(** text that may go into an SMTP reply or a header comment: 7 bit, no control characters below 32 *)
Definition reply_byte (c : N) : bool := (32 <=? c) && (c <=? 127).
Definition reply_text (s : bytes) : bool := forallb reply_byte s.
Definition exp_ok (e : option bytes) : bool := match e with Some s => reply_text s | None => true end.
(** what record_bad_token() may leave: printable, and nothing that ends or escapes a comment *)
Definition comment_byte (c : N) : bool := (33 <=? c) && (c <=? 126) && negb (mem c [40; 41; 92]).

(** a header field as written to the message: 7 bit, no NUL, no CR, and a line feed
    only at the very end or followed by a tab (folding) *)
Fixpoint hdr_ok (s : bytes) : bool :=
  match s with
  | [] => true
  | c :: t =>
      (1 <=? c) && (c <=? 127) && negb (c =? 13)
      && (if c =? 10 then match t with [] => true | n :: _ => n =? 9 end else true)
      && hdr_ok t
  end.
(** session strings from which the header is built *)
Definition sess_text (s : bytes) : bool := forallb (fun c => (32 <=? c) && (c <=? 126)) s.
Definition sess_ok (X : sess) : bool :=
  sess_text (s_iptext X) && sess_text (s_mailfrom X) && sess_text (s_helostr X)
  && sess_text (s_remotehost X) && sess_text (s_heloname X).

(** RFC 7208, 4.6.4: "SPF implementations MUST limit the total number of those terms to 10 during SPF evaluation" *)
Definition RFC_TERM_LIMIT : nat := 10.

(** number of evaluations of DNS querying terms recorded in a model run *)
Definition count_terms (l : list ev) : nat :=
  length (filter (fun e => match e with ETerm => true | _ => false end) l).
Definition queries_of (l : list ev) : list qev :=
  flat_map (fun e => match e with EQ q => [q] | ETerm => [] end) l.

(** ---- the checker for outputs of the implementation.
    From the resolver calls alone the number of evaluated terms is not known,
    but a lower bound is: every ask_dnsmx() is one mx term; ask_dnsa/aaaa calls
    are a/exists terms except at most SPF_PTR_LIMIT after each ask_dnsname();
    every TXT lookup but the first is an include/redirect or the exp= lookup of
    one evaluated record, so that at least (T-2)/2 of them are terms, and T-1
    when no record of the zone has an exp= modifier. *)
Definition is_QT (q : qev) := match q with QT _ => true | _ => false end.
Definition is_QM (q : qev) := match q with QM _ => true | _ => false end.
Definition is_QN (q : qev) := match q with QN _ => true | _ => false end.
Definition is_QAddr (q : qev) := match q with QA _ | Q6 _ => true | _ => false end.
Definition cnt (f : qev -> bool) (l : list qev) : nat := length (filter f l).

Definition terms_lower_bound (zone_has_exp : bool) (l : list qev) : nat :=
  let t := cnt is_QT l in
  let i := if zone_has_exp then Nat.div (t - 1) 2 else (t - 1)%nat in
  (i + cnt is_QM l + (cnt is_QAddr l - SPF_PTR_LIMIT * cnt is_QN l))%nat.

(** one observation of check_host() + spfreceived() *)
Record obs := {
  o_log : list qev;
  o_rc : Z;
  o_exp : option bytes;
  o_rcv : option bytes
}.

Definition spec_ok_C11 (zone_has_exp : bool) (o : obs) : bool :=
  result_ok (o_rc o)
  && exp_ok (o_exp o)
  && match o_rcv o with Some h => hdr_ok h | None => true end
  && Nat.leb (terms_lower_bound zone_has_exp (o_log o)) RFC_TERM_LIMIT.

(** does a TXT record carry an exp= modifier (as find_modifier() sees it)? *)
Fixpoint has_exp_mod (s : bytes) : bool :=
  match s with
  | [] => false
  | _ :: t => case_prefix MOD_EXP s || has_exp_mod t
  end.

(** C14 — what a well-formed mailbox is (RFC 5321 4.1.2 / RFC 5322 3.2.3, 3.2.4, 4.1),
    as short readable predicates, and boolean checkers for them that are run
    on the outputs of the C code.  No reference to the model of the C here. *)
From Qv Require Import Common.Bytes Model.InetPton.

Definition cAT : N := 64%N.
Definition cQUOTE : N := 34%N.
Definition cBSL : N := 92%N.
Definition cLBR : N := 91%N.
Definition cRBR : N := 93%N.
Definition cGT : N := 62%N.
Definition cCOMMA : N := 44%N.
Definition cCOLON : N := 58%N.
Definition cPLUS : N := 43%N.
Definition TAG6 : bytes := [73; 80; 118; 54; 58]%N.                               (* "IPv6:" *)
Definition POSTMASTER : bytes := [112; 111; 115; 116; 109; 97; 115; 116; 101; 114]%N.  (* "postmaster" *)

(* ------------------------------------------------------------------ domain *)

(** letter, digit or hyphen *)
Definition ldh (c : N) : bool := is_alpha c || is_digit c || N.eqb c DASH.

Definition label (l : bytes) : Prop :=
  1 <= length l <= 63 /\ Forall (fun c => ldh c = true) l.

(** l1 "." l2 "." ... "." ln *)
Fixpoint join_dots (ls : list bytes) : bytes :=
  match ls with
  | [] => []
  | [l] => l
  | l :: r => l ++ DOT :: join_dots r
  end.

Definition all_numeric (l : bytes) : Prop := Forall (fun c => is_digit c = true) l.

(** a fully-qualified host name in the sense of the property: at least two
    labels of 1..63 letters/digits/hyphens, at most 255 octets, the final label
    at least two characters and not all-numeric *)
Definition fqdn (h : bytes) : Prop :=
  exists labels, h = join_dots labels /\ 2 <= length labels /\ Forall label labels
    /\ length h <= 255
    /\ 2 <= length (last labels []) /\ ~ all_numeric (last labels []).

(** what domainvalid() enforces exactly: as [fqdn], and the name ends in a letter *)
Definition fqdn_strict (h : bytes) : Prop :=
  exists labels, h = join_dots labels /\ 2 <= length labels /\ Forall label labels
    /\ length h <= 255
    /\ 2 <= length (last labels []) /\ is_alpha (last h 0%N) = true.

(** the labels of a name: split at every dot (never the empty list) *)
Fixpoint split_dots (s : bytes) : list bytes :=
  match s with
  | [] => [[]]
  | c :: s' =>
      if N.eqb c DOT then [] :: split_dots s'
      else match split_dots s' with
           | l :: ls => (c :: l) :: ls
           | [] => [[c]]
           end
  end.

Definition label_b (l : bytes) : bool :=
  Nat.leb 1 (length l) && Nat.leb (length l) 63 && forallb ldh l.

Definition fqdn_strict_b (h : bytes) : bool :=
  let ls := split_dots h in
  Nat.leb 2 (length ls) && forallb label_b ls && Nat.leb (length h) 255
  && Nat.leb 2 (length (last ls [])) && is_alpha (last h 0%N).

Definition fqdn_b (h : bytes) : bool :=
  let ls := split_dots h in
  Nat.leb 2 (length ls) && forallb label_b ls && Nat.leb (length h) 255
  && Nat.leb 2 (length (last ls [])) && negb (forallb is_digit (last ls [])).

(* ------------------------------------------------------------------ local part *)

(** RFC 5322 atext *)
Definition atext (c : N) : bool :=
  is_alpha c || is_digit c
  || existsb (N.eqb c) [33; 35; 36; 37; 38; 39; 42; 43; 45; 47; 61; 63; 94; 95; 96; 123; 124; 125; 126]%N.

(** RFC 5322 qtext including obs-qtext (obs-NO-WS-CTL): printable ASCII except
    the double quote and the backslash, and the control characters 1-8, 11, 12, 14-31, 127.
    Not in it: NUL, HT, LF, CR, SP, double quote, backslash, anything >= 128. *)
Definition qtext (c : N) : bool :=
  N.eqb c 33 || (N.leb 35 c && N.leb c 91) || (N.leb 93 c && N.leb c 126)
  || (N.leb 1 c && N.leb c 8) || N.eqb c 11 || N.eqb c 12 || (N.leb 14 c && N.leb c 31) || N.eqb c 127.

Definition atom (a : bytes) : Prop := a <> [] /\ Forall (fun c => atext c = true) a.

(** Dot-string = Atom, then any number of: dot Atom *)
Inductive dot_string : bytes -> Prop :=
| ds_one a : atom a -> dot_string a
| ds_more a r : atom a -> dot_string r -> dot_string (a ++ DOT :: r).

(** the inside of a quoted string: qtext or the quoted pairs backslash-quote and backslash-backslash *)
Inductive qcontent : bytes -> Prop :=
| qc_nil : qcontent []
| qc_text c r : qtext c = true -> qcontent r -> qcontent (c :: r)
| qc_pair e r : e = cQUOTE \/ e = cBSL -> qcontent r -> qcontent (cBSL :: e :: r).

Definition quoted_string (l : bytes) : Prop :=
  exists q, l = cQUOTE :: q ++ [cQUOTE] /\ qcontent q.

(** the local part of the property: a dot-string or one quoted string *)
Definition local_rfc (l : bytes) : Prop := dot_string l \/ quoted_string l.

(** what parselocalpart() enforces: any sequence of unquoted runs of atext/"."
    and correctly terminated quoted strings *)
Inductive lweak : bytes -> Prop :=
| lw_nil : lweak []
| lw_char c r : atext c = true \/ c = DOT -> lweak r -> lweak (c :: r)
| lw_quoted q r : qcontent q -> lweak r -> lweak (cQUOTE :: q ++ cQUOTE :: r).

(** 7-bit, no NUL, CR, LF *)
Definition clean7 (c : N) : Prop := (c < 128)%N /\ c <> 0%N /\ c <> CR /\ c <> LF.

(** boolean versions *)
Fixpoint lweak_b (q : bool) (l : bytes) : bool :=
  match l with
  | [] => negb q
  | c :: r =>
      if negb q then
        if N.eqb c cQUOTE then lweak_b true r else (atext c || N.eqb c DOT) && lweak_b false r
      else
        if N.eqb c cQUOTE then lweak_b false r
        else if N.eqb c cBSL then
          match r with
          | e :: r' => (N.eqb e cQUOTE || N.eqb e cBSL) && lweak_b true r'
          | [] => false
          end
        else qtext c && lweak_b true r
  end.

Definition atom_b (a : bytes) : bool := negb (Nat.eqb (length a) 0) && forallb atext a.
Definition dot_string_b (l : bytes) : bool := forallb atom_b (split_dots l).

(** behind the opening quote *)
Fixpoint qbody_b (r : bytes) : bool :=
  match r with
  | [] => false
  | c :: r' =>
      if N.eqb c cQUOTE then Nat.eqb (length r') 0
      else if N.eqb c cBSL then
        match r' with
        | e :: r'' => (N.eqb e cQUOTE || N.eqb e cBSL) && qbody_b r''
        | [] => false
        end
      else qtext c && qbody_b r'
  end.
Definition quoted_string_b (l : bytes) : bool :=
  match l with c :: r => N.eqb c cQUOTE && qbody_b r | [] => false end.

Definition local_rfc_b (l : bytes) : bool := dot_string_b l || quoted_string_b l.

(** The class of F-C14-2, syntactically: a local part without any quote that
    has an empty atom (leading dot, trailing dot, two dots in a row), or a
    local part with a quote that is not one quoted string from its first to its
    last byte (text before or behind a quoted string, several quoted strings). *)
Fixpoint has_dotdot (l : bytes) : bool :=
  match l with
  | a :: ((b :: _) as r) => (N.eqb a DOT && N.eqb b DOT) || has_dotdot r
  | _ => false
  end.
Definition bad_dots (l : bytes) : bool :=
  N.eqb (hd 0%N l) DOT || N.eqb (last l 0%N) DOT || has_dotdot l.
(** scan from inside a quoted string: [true] iff the closing quote is the last byte *)
Fixpoint closes_at_end (r : bytes) : bool :=
  match r with
  | [] => false
  | c :: r' =>
      if N.eqb c cQUOTE then Nat.eqb (length r') 0
      else if N.eqb c cBSL then match r' with _ :: r'' => closes_at_end r'' | [] => false end
      else closes_at_end r'
  end.
Definition one_quoted (l : bytes) : bool :=
  match l with c :: r => N.eqb c cQUOTE && closes_at_end r | [] => false end.
Definition local_class (l : bytes) : bool :=
  if existsb (N.eqb cQUOTE) l then negb (one_quoted l) else bad_dots l.

(* ------------------------------------------------------------------ mailbox *)

Section WithOracle.
Variable pton4 pton6 : bytes -> bool.

(** the inside of the brackets of an address literal *)
Definition literal_body (lit : bytes) : Prop :=
  (pton4 lit = true /\ length lit < 16)
  \/ (exists l6, lit = TAG6 ++ l6 /\ pton6 l6 = true /\ length l6 < 46).

(** [mailbox L rc s]: s = local "@" domain with the local part satisfying [L];
    rc = 3: host name, rc = 4: address literal *)
Definition mailbox (L : bytes -> Prop) (rc : nat) (s : bytes) : Prop :=
  exists lp dom, s = lp ++ cAT :: dom /\ lp <> [] /\ ~ In cAT lp /\ L lp
    /\ ((rc = 3 /\ fqdn dom) \/ (rc = 4 /\ exists lit, dom = cLBR :: lit ++ [cRBR] /\ ~ In cRBR lit /\ literal_body lit)).

(** a source route "@dom,@dom,...:" *)
Inductive route : bytes -> Prop :=
| rt_last d : fqdn d -> route (cAT :: d ++ [cCOLON])
| rt_more d r : fqdn d -> route r -> route (cAT :: d ++ cCOMMA :: r).

(** parseaddr(s) = rc: what the codes mean (0 = invalid; 1, 2 are the filter-list forms) *)
Definition parseaddr_post (s : bytes) (rc : nat) : Prop :=
  match rc with
  | 0 => True
  | 1 => fqdn_strict s /\ ~ In cAT s
  | 2 => exists d, s = cAT :: d /\ fqdn_strict d
  | 3 => mailbox lweak 3 s
  | 4 => mailbox lweak 4 s
  | _ => False
  end.

(** addrsyntax(line, flags) = rc with *addr = [addr], *more = line + [more]; [s] = the line up to its terminator.
    rc <> 0 only if  s = route ++ a ++ ">" ++ post  where the route is empty or (RCPT TO only) well-formed and at
    most 256 octets, [addr] is [a] lower-cased, [more] points behind the ">" when something follows, and
    rc = 3: [a] is local@fqdn, rc = 4: [a] is local@[literal], rc = 1: [a] is empty (MAIL FROM) or
    "postmaster" in any case (RCPT TO). *)
Definition addrsyntax_post (s : bytes) (flags : Z) (rc : Z) (addr : option bytes) (more : option nat) : Prop :=
  rc = 0%Z \/
  exists rt a post, s = rt ++ a ++ cGT :: post /\ ~ In cGT a
    /\ (rt = [] \/ (flags = 1%Z /\ route rt /\ length rt <= 256))
    /\ addr = Some (map to_lower a)
    /\ more = match post with [] => None | _ => Some (length rt + length a + 1) end
    /\ ((rc = 1%Z /\ ((flags = 0%Z /\ a = []) \/ (flags = 1%Z /\ map to_lower a = POSTMASTER)))
        \/ (rc = 3%Z /\ mailbox lweak 3 a)
        \/ (rc = 4%Z /\ mailbox lweak 4 a)).

(** addrparse(): [None] = refused with 501, [Some ad] = the address the existence checks go on with;
    an address literal only in RCPT TO *)
Definition addrparse_post (s : bytes) (flags : Z) (o : option bytes) : Prop :=
  match o with
  | None => True
  | Some ad =>
      exists rt a post, s = rt ++ a ++ cGT :: post /\ ~ In cGT a
        /\ (rt = [] \/ (flags = 1%Z /\ route rt /\ length rt <= 256))
        /\ ad = map to_lower a
        /\ ((flags = 0%Z /\ a = []) \/ (flags = 1%Z /\ map to_lower a = POSTMASTER)
            \/ mailbox lweak 3 a \/ (flags = 1%Z /\ mailbox lweak 4 a))
  end.

(** what the xtext of an accepted AUTH= parameter decodes to: nothing, "<>", or a mailbox *)
Definition xtext_value (d : bytes) : Prop :=
  d = [] \/ d = [60; 62]%N \/ mailbox lweak 3 d \/ mailbox lweak 4 d.
End WithOracle.

(** bytes before the first occurrence of [c] / behind it *)
Fixpoint before (c : N) (s : bytes) : bytes :=
  match s with [] => [] | x :: s' => if N.eqb x c then [] else x :: before c s' end.
Fixpoint behind (c : N) (s : bytes) : option bytes :=
  match s with [] => None | x :: s' => if N.eqb x c then Some s' else behind c s' end.

Definition starts_with (p s : bytes) : bool := bytes_eqb (firstn (length p) s) p.

Definition literal_body_b (lit : bytes) : bool :=
  if starts_with TAG6 lit then pton6_ref (skipn (length TAG6) lit) && Nat.ltb (length lit - length TAG6) 46
  else pton4_ref lit && Nat.ltb (length lit) 16.

(** [strict]: the local part must be a dot-string / quoted string; otherwise [lweak] *)
Definition mailbox_b (strict : bool) (rc : nat) (s : bytes) : bool :=
  let lp := before cAT s in
  match behind cAT s with
  | None => false
  | Some dom =>
      negb (Nat.eqb (length lp) 0) && lweak_b false lp && (negb strict || local_rfc_b lp)
      && (if Nat.eqb rc 3 then fqdn_b dom
          else if Nat.eqb rc 4 then
            match dom with
            | c :: r => N.eqb c cLBR && N.eqb (last r 0%N) cRBR && negb (Nat.eqb (length r) 0)
                        && negb (existsb (N.eqb cRBR) (removelast r)) && literal_body_b (removelast r)
            | [] => false
            end
          else false)
  end.

(** "@d1,@d2,...,@dn:" given without the final colon as the list split at commas *)
Fixpoint route_b (r : bytes) (fuel : nat) : bool :=
  match fuel with
  | O => false
  | S fuel' =>
      match r with
      | c :: r' =>
          N.eqb c cAT &&
          (let d := before cCOMMA r' in
           match behind cCOMMA r' with
           | None => (* last element: d ends with ':' *)
               N.eqb (last d 0%N) cCOLON && fqdn_b (removelast d)
           | Some rest => fqdn_b d && route_b rest fuel'
           end)
      | [] => false
      end
  end.

(* ------------------------------------------------------------------ checkers for the C observations *)

Definition cstr_of (s : bytes) : bytes := before 0%N s.

(** domainvalid(host) returned [rc] *)
Definition spec_dv (host : bytes) (rc : Z) : bool :=
  if Z.eqb rc 0 then fqdn_b (cstr_of host) else Z.eqb rc 1.

(** parselocalpart(addr) returned [n] *)
Definition spec_lp (strict : bool) (addr : bytes) (n : Z) : bool :=
  if Z.ltb n 0 then Z.eqb n (-1)
  else
    let k := Z.to_nat n in
    let lp := firstn k addr in
    Nat.leb k (length (cstr_of addr))
    && (N.eqb (nth k (addr ++ [0%N]) 1%N) 0 || N.eqb (nth k (addr ++ [0%N]) 1%N) cAT)
    && lweak_b false lp
    && forallb (fun c => N.ltb c 128 && negb (N.eqb c 0) && negb (N.eqb c CR) && negb (N.eqb c LF)) lp
    && (negb strict || Nat.eqb k 0 || local_rfc_b lp).

(** parseaddr(addr) = rc, checkaddr(addr) = chk, addrspec_valid(addr) = av *)
Definition spec_pa (strict : bool) (addr : bytes) (rc chk av : Z) : bool :=
  let s := cstr_of addr in
  Z.eqb chk (if Z.eqb rc 0 then 1 else 0) && Z.eqb av (if Z.leb 3 rc then 1 else 0)
  && (if Z.eqb rc 0 then true
      else if Z.eqb rc 1 then fqdn_b s
      else if Z.eqb rc 2 then match s with c :: d => N.eqb c cAT && fqdn_b d | [] => false end
      else if Z.eqb rc 3 then mailbox_b strict 3 s
      else if Z.eqb rc 4 then mailbox_b strict 4 s
      else false).

(** every byte of the line buffer is unchanged or now NUL, same length *)
Definition nulw (old new : bytes) : Prop := Forall2 (fun x y => y = x \/ y = 0%N) old new.
Fixpoint only_nuls_written (old new : bytes) : bool :=
  match old, new with
  | [], [] => true
  | x :: o, y :: n => (N.eqb x y || N.eqb y 0) && only_nuls_written o n
  | _, _ => false
  end.

(** the address [ad] handed back with return code [rc] <> 0 for the line [s] (bytes before the terminator):
    [s] = route ++ a ++ ">" ++ rest, [ad] = lower-cased [a], [a] a mailbox (3, 4), or for rc = 1 empty
    (MAIL FROM) or postmaster (RCPT TO); the route only for flags = 1, well-formed, at most 256 octets.
    Result: the offset behind the ">" and whether something follows it. *)
Definition spec_as_core (strict : bool) (flags : Z) (s : bytes) (rc : Z) (ad : bytes) : option (nat * bool) :=
  (* the route, when there is one: up to and including the first ':' *)
  let has_route := Z.eqb flags 1 && N.eqb (hd 0%N s) cAT in
  let rt := if has_route then before cCOLON s ++ [cCOLON] else [] in
  let s1 := skipn (length rt) s in
  let a := before cGT s1 in
  match behind cGT s1 with
  | None => None
  | Some rest =>
      if (negb has_route || (route_b rt (length rt) && Nat.leb (length rt) 256 && existsb (N.eqb cCOLON) s))
         && bytes_eqb ad (map to_lower a)
         && (if Z.eqb rc 1 then
               (Z.eqb flags 0 && Nat.eqb (length a) 0)
               || (Z.eqb flags 1 && bytes_eqb (map to_lower a) POSTMASTER)
             else if Z.eqb rc 3 then mailbox_b strict 3 a
             else if Z.eqb rc 4 then mailbox_b strict 4 a
             else false)
      then Some (length rt + length a + 1, negb (Nat.eqb (length rest) 0))
      else None
  end.

(** addrsyntax(in, flags, &addr, &more) = rc with the observed addr / more / buffer.
    [inb] is the line without its terminator. *)
Definition spec_as (strict : bool) (flags : Z) (inb : bytes) (rc : Z) (addr : option bytes) (more : option nat) (mem : bytes) : bool :=
  only_nuls_written (inb ++ [0%N]) mem &&
  (if Z.eqb rc 0 then true
   else match addr with
        | None => false
        | Some ad =>
            match spec_as_core strict flags (cstr_of inb) rc ad with
            | None => false
            | Some (k, follows) =>
                match more with
                | None => negb follows
                | Some m => follows && Nat.eqb m k
                end
            end
        end).

(** addrparse() went on with [Some ad] / refused the line with 501 ([None]): a literal only in RCPT TO *)
Definition spec_ap (strict : bool) (flags : Z) (inb : bytes) (res : option bytes) : bool :=
  match res with
  | None => true
  | Some ad =>
      let s := cstr_of inb in
      let ok rc := match spec_as_core strict flags s rc ad with Some _ => true | None => false end in
      ok 1%Z || ok 3%Z || (Z.eqb flags 1 && ok 4%Z)
  end.

(** xtext decoding of a prefix: [Some decoded] if [s] is xtext throughout *)
Definition uhex (c : N) : option N :=
  if is_digit c then Some (c - 48)%N
  else if N.leb 65 c && N.leb c 70 then Some (c - 55)%N
  else None.
Fixpoint xdecode (s : bytes) : option bytes :=
  match s with
  | [] => Some []
  | c :: r =>
      if N.eqb c cPLUS then
        match r with
        | h1 :: h2 :: r' =>
            match uhex h1, uhex h2, xdecode r' with
            | Some a, Some b, Some d => Some ((a * 16 + b)%N :: d)
            | _, _, _ => None
            end
        | _ => None
        end
      else if N.leb 33 c && N.leb c 126 && negb (N.eqb c 61) then
        match xdecode r with Some d => Some (c :: d) | None => None end
      else None
  end.

(** xtextlen(str) returned [n] *)
Definition spec_xt (strict : bool) (str : bytes) (n : Z) : bool :=
  if Z.ltb n 0 then Z.eqb n (-1)
  else
    let k := Z.to_nat n in
    Nat.leb k (length (cstr_of str))
    && (let e := nth k (str ++ [0%N]) 1%N in N.eqb e 0 || N.eqb e SP)
    && match xdecode (firstn k str) with
       | None => false
       | Some d =>
           Nat.eqb (length d) 0 || bytes_eqb d [60; 62]%N
           || mailbox_b strict 3 d || mailbox_b strict 4 d
       end.

(** C09 (codec part) — what a strict Base64 decoder accepts (RFC 4648 section 4,
    canonical form, with CRLF line breaks as produced by b64encode), short
    enough to read.  No reference to the model of the C code in here. *)
From Qv Require Import Common.Bytes Gen.GenBase64.

(** value of an alphabet character: its position in the alphabet *)
Fixpoint pos_in (c : N) (s : bytes) : option N :=
  match s with
  | [] => None
  | x :: s' => if N.eqb x c then Some 0%N
               else match pos_in c s' with Some k => Some (N.succ k) | None => None end
  end.
Definition val (c : N) : option N := pos_in c B64_ALPHA.

(** Line breaks: CR LF pairs may separate the text into lines; a CR or LF that
    is not part of such a pair, and two pairs in a row, are errors.
    [unwrap inp brk] = the text without its line breaks ([brk]: a line break
    was just seen). *)
Fixpoint unwrap (inp : bytes) (brk : bool) : option bytes :=
  match inp with
  | [] => Some []
  | c :: inp1 =>
      if N.eqb c CR then
        match inp1 with
        | c2 :: rest => if N.eqb c2 LF then (if brk then None else unwrap rest true) else None
        | [] => None
        end
      else if N.eqb c LF then None
      else match unwrap inp1 false with Some t => Some (c :: t) | None => None end
  end.

(** Canonical Base64 text (groups of four; "xx==" / "xxx=" only as the last
    group and only with zero padding bits) to the octets it stands for. *)
Fixpoint std_decode (t : bytes) : option bytes :=
  match t with
  | [] => Some []
  | c0 :: c1 :: c2 :: c3 :: rest =>
      match val c0, val c1 with
      | Some v0, Some v1 =>
          let b0 := (v0 * 4 + v1 / 16)%N in
          if N.eqb c2 B64_PAD then
            match rest with
            | [] => if N.eqb c3 B64_PAD && N.eqb (v1 mod 16) 0 then Some [b0] else None
            | _ => None
            end
          else
            match val c2 with
            | Some v2 =>
                let b1 := ((v1 mod 16) * 16 + v2 / 4)%N in
                if N.eqb c3 B64_PAD then
                  match rest with
                  | [] => if N.eqb (v2 mod 4) 0 then Some [b0; b1] else None
                  | _ => None
                  end
                else
                  match val c3 with
                  | Some v3 =>
                      let b2 := ((v2 mod 4) * 64 + v3)%N in
                      match std_decode rest with
                      | Some d => Some (b0 :: b1 :: b2 :: d)
                      | None => None
                      end
                  | None => None
                  end
            | None => None
            end
      | _, _ => None
      end
  | _ => None
  end.

Definition strict_decode (inp : bytes) : option bytes :=
  match unwrap inp false with
  | Some t => std_decode t
  | None => None
  end.

(** b64decode reports the length without trailing NUL octets *)
Fixpoint strip0 (d : bytes) : bytes :=
  match d with
  | [] => []
  | b :: d' => match strip0 d' with
               | [] => if N.eqb b 0 then [] else [b]
               | t => b :: t
               end
  end.

(** the full statement for one call, as a checker on the observed result
    ([None] = return 1, [Some o] = return 0 with out = o) *)
Definition spec_ok_C09_dec (inp : bytes) (obs : option bytes) : bool :=
  match strict_decode inp, obs with
  | Some d, Some o => bytes_eqb o (strip0 d)
  | None, None => true
  | _, _ => false
  end.

(** b64encode: the output is canonical Base64 (possibly with line breaks) of the input *)
Definition spec_ok_C09_enc (x e : bytes) : bool :=
  match strict_decode e with
  | Some d => bytes_eqb d x
  | None => false
  end.

(** ---- the class of inputs with irregular padding (known finding F-C09-1b):
    b64decode is lax about them.  An input is *regular* when
    - the number of octets other than CR and LF is a multiple of four,
    - nothing but one more '=' follows the first '=', and
    - the padding bits of the last symbol in front of the '=' are zero. *)
Definition is_brk (c : N) : bool := N.eqb c 13 || N.eqb c 10.

Fixpoint nsym (inp : bytes) : nat :=
  match inp with
  | [] => 0
  | c :: r => if is_brk c then nsym r else S (nsym r)
  end.

(** last symbol (octet other than CR/LF) in front of the first '=' and what follows that '=' *)
Fixpoint pad_split (inp : bytes) (last : option N) : option (option N * bytes) :=
  match inp with
  | [] => None
  | c :: r => if N.eqb c B64_PAD then Some (last, r)
              else pad_split r (if is_brk c then last else Some c)
  end.

Definition pad_bits_zero (last : option N) (npad : N) : bool :=
  match last with
  | Some c => match val c with
              | Some v => N.eqb (v mod (if N.eqb npad 2 then 16 else 4)) 0
              | None => true
              end
  | None => true
  end.

Definition pad_regular (inp : bytes) : bool :=
  Nat.eqb (Nat.modulo (nsym inp) 4) 0 &&
  match pad_split inp None with
  | None => true
  | Some (last, []) => pad_bits_zero last 1
  | Some (last, [c]) => N.eqb c B64_PAD && pad_bits_zero last 2
  | Some _ => false
  end.

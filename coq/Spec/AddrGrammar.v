(** C14, second part: the grammar of RFC 5321 4.1.2 / 4.1.3 as Props, tight enough to state
    EQUIVALENCES with what the C accepts (Spec/AddrSpec.v states the one-directional reading of the
    property).  Where the C deliberately deviates from the RFC the deviation is a named predicate. *)
From Qv Require Import Common.Bytes Spec.AddrSpec.

(* ------------------------------------------------------------------ Domain *)

(** RFC 5321: sub-domain = Let-dig [Ldh-str], Ldh-str = *( ALPHA / DIGIT / "-" ) Let-dig :
    a label that neither starts nor ends with a hyphen *)
Definition sub_domain (l : bytes) : Prop := label l /\ hd 0%N l <> DASH /\ last l 0%N <> DASH.

(** Domain = sub-domain *("." sub-domain), restricted the way the property restricts it: fully
    qualified (>= 2 labels), <= 255 octets, top-level label >= 2 characters ending in a letter *)
Definition rfc_fqdn (h : bytes) : Prop :=
  exists labels, h = join_dots labels /\ 2 <= length labels /\ Forall sub_domain labels
    /\ length h <= 255 /\ 2 <= length (last labels []) /\ is_alpha (last h 0%N) = true.

(** the deviation of domainvalid(): some label starts or ends with a hyphen *)
Definition edge_hyphen (h : bytes) : Prop :=
  exists l, In l (split_dots h) /\ (hd 0%N l = DASH \/ last l 0%N = DASH).

(* ------------------------------------------------------------------ Mailbox *)

Definition has_prefix (p s : bytes) : Prop := exists r, s = p ++ r.

Section WithOracle.
Variable pton4 pton6 : bytes -> bool.

(** the inside of the brackets, exactly as parseaddr() dispatches: the IPv6 tag decides *)
Definition literal_x (lit : bytes) : Prop :=
  (~ has_prefix TAG6 lit /\ pton4 lit = true /\ length lit < 16)
  \/ (exists l6, lit = TAG6 ++ l6 /\ pton6 l6 = true /\ length l6 < 46).

(** Mailbox = Local-part "@" ( Domain / address-literal ); rc = 3 host name, rc = 4 literal.
    [L] is the local-part language.  The first at sign ends the local part (an at sign inside a
    quoted string is not supported by the C). *)
Definition mailbox_x (L : bytes -> Prop) (rc : nat) (s : bytes) : Prop :=
  exists lp dom, s = lp ++ cAT :: dom /\ lp <> [] /\ ~ In cAT lp /\ L lp
    /\ ((rc = 3 /\ fqdn_strict dom)
        \/ (rc = 4 /\ exists lit, dom = cLBR :: lit ++ [cRBR] /\ ~ In cRBR lit /\ literal_x lit)).

(** A-d-l = At-domain *( "," At-domain ), followed by ":" *)
Inductive route_x : bytes -> Prop :=
| rx_last d : fqdn_strict d -> route_x (cAT :: d ++ [cCOLON])
| rx_more d r : fqdn_strict d -> route_x r -> route_x (cAT :: d ++ cCOMMA :: r).

(** Path as addrsyntax() reads it, exactly: [s] (the bytes after the opening bracket up to the terminator) is
    route ++ a ++ ">" ++ post; the first ">" ends the address; a source route only with flags = 1 (RCPT TO),
    at most 256 octets, and then no comma anywhere behind it (the C cuts the whole rest of the line at commas
    before it looks for the colon; qsmtpd refuses RCPT TO parameters anyway).  rc = 3 / 4: [a] is a mailbox;
    rc = 1: [a] is empty (MAIL FROM:<>) or "postmaster" in any case (RCPT TO). *)
Definition addrsyntax_post_x (s : bytes) (flags : Z) (rc : Z) (addr : option bytes) (more : option nat) : Prop :=
  rc = 0%Z \/
  exists rt a post, s = rt ++ a ++ cGT :: post /\ ~ In cGT a
    /\ (rt = [] \/ (flags = 1%Z /\ route_x rt /\ length rt <= 256 /\ ~ In cCOMMA (a ++ cGT :: post)))
    /\ addr = Some (map to_lower a)
    /\ more = match post with [] => None | _ => Some (length rt + length a + 1) end
    /\ ((rc = 1%Z /\ ((flags = 0%Z /\ a = []) \/ (flags = 1%Z /\ map to_lower a = POSTMASTER)))
        \/ (rc = 3%Z /\ mailbox_x lweak 3 a)
        \/ (rc = 4%Z /\ mailbox_x lweak 4 a)).

(** AUTH=<xtext>: what the octets behind "AUTH=" must be for xtextlen() to return n >= 0: the first n octets
    are xtext ([xdecode] succeeds: printable characters except "+" and "=", or "+" and two upper-case hex
    digits), the next one ends the line or is a blank, and the decoded value -- no NUL in it, at most 320
    octets (the buffer of xtextlen) -- is empty, "<>" or a mailbox *)
Definition xtext_value_x (d : bytes) : Prop :=
  d = [] \/ d = [60; 62]%N \/ mailbox_x lweak 3 d \/ mailbox_x lweak 4 d.
Definition xtext_accept (s : bytes) (n : Z) : Prop :=
  exists x tail d, s = x ++ tail /\ n = Z.of_nat (length x) /\ (tail = [] \/ hd 0%N tail = SP)
    /\ xdecode x = Some d /\ ~ In 0%N d /\ length d <= 320 /\ xtext_value_x d.
End WithOracle.

(* ------------------------------------------------------------------ IPv4 address literal *)

(** Snum as inet_pton reads it: 1..3 digits, value <= 255, no leading zero unless it is "0" *)
Fixpoint dec_value (l : bytes) (acc : N) : N :=
  match l with [] => acc | c :: r => dec_value r (acc * 10 + (c - 48))%N end.
Definition snum (l : bytes) : Prop :=
  l <> [] /\ Forall (fun c => is_digit c = true) l /\ (dec_value l 0 <= 255)%N
  /\ (hd 0%N l = 48%N -> l = [48%N]).
(** IPv4-address-literal = Snum 3("." Snum) *)
Definition dotted_quad (s : bytes) : Prop :=
  exists a b c d, s = a ++ DOT :: b ++ DOT :: c ++ DOT :: d /\ snum a /\ snum b /\ snum c /\ snum d.

(* ------------------------------------------------------------------ IPv6 address literal *)

(** The IPv6 text inet_pton accepts, as a right-linear grammar with a byte counter.  [ip6_rest tp comp t]:
    [t] is what may follow, from the start of a group, when [tp] of the 16 address bytes are already
    determined and [comp] tells whether the "::" has been used.  A group is 1..4 hex digits (2 bytes); the
    address may end in a dotted quad (4 bytes); "::" stands for at least one zero byte pair, so with it the
    written groups must stay below 16 bytes, without it they must make exactly 16. *)
Definition hexdig (c : N) : bool :=
  is_digit c || (N.leb 97 c && N.leb c 102) || (N.leb 65 c && N.leb c 70).
Definition hex4 (g : bytes) : Prop := 1 <= length g <= 4 /\ Forall (fun c => hexdig c = true) g.

(** the bytes determined at the end: fewer than 16 when "::" fills the gap, exactly 16 otherwise *)
Definition ip6_fits (comp : bool) (n : nat) : Prop := if comp then n < 16 else n = 16.

Inductive ip6_rest : nat -> bool -> bytes -> Prop :=
| i6_last g tp comp : hex4 g -> ip6_fits comp (tp + 2) -> ip6_rest tp comp g
| i6_group g rest tp comp : hex4 g -> tp + 2 <= 16 -> rest <> [] -> ip6_rest (tp + 2) comp rest ->
    ip6_rest tp comp (g ++ cCOLON :: rest)
| i6_comp rest tp : ip6_rest tp true rest -> ip6_rest tp false (cCOLON :: rest)
| i6_end tp : tp < 16 -> ip6_rest tp true []
| i6_v4 q tp comp : dotted_quad q -> ip6_fits comp (tp + 4) -> ip6_rest tp comp q.

(** the whole text: a leading colon must be the first half of "::" *)
Definition ip6_text (s : bytes) : Prop :=
  (exists s1, s = cCOLON :: cCOLON :: s1 /\ ip6_rest 0 false (cCOLON :: s1))
  \/ (s <> [] /\ hd 0%N s <> cCOLON /\ ip6_rest 0 false s).

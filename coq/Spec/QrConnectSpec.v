(** C04, connect phase — what must be true of Qremote's status stream when it leaves the connect phase.

    Observation: the exit code, whether send_envelope() was reached and how many reports had been
    written by then, the first words of all reports at exit, and whether the status stream as bytes
    is empty or a sequence of records "<letter>...\n\0" ([wf], computed on the C side only).

    * the process exits with code 0;
    * if it never reached send_envelope() -- it exited inside connect_mx(), or main() found no server,
      or refused a pinned host -- it has written at least one report;
    * when send_envelope() is reached nothing has been written yet (the envelope phase of
      Model/QrEnvelope.v starts from an empty status stream);
    * every report written in this phase starts with Z, and there is exactly one: the exits that go
      through quitmsg() add nothing, whatever the server does in the QUIT exchange;
    * behind the harness' stand-in for send_envelope() (which writes no report) the clean shutdown
      writes none either. *)
From Qv Require Import Common.Bytes.
Local Open Scope bool_scope.

Definition zword_b (w : bytes) : bool := N.eqb (hd 0%N w) 90.

Definition conn_spec_ok (code : nat) (mail : option nat) (words : list bytes) (wf : bool) : bool :=
  Nat.eqb code 0 && wf && forallb zword_b words
  && match mail with
     | Some n => Nat.eqb n 0 && Nat.eqb (length words) 0
     | None => Nat.eqb (length words) 1
     end.

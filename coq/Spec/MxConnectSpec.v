(** C20, last clause: "each address at most once, moving on after a failed connection, greeting or EHLO,
    and a temporary failure is reported only after every candidate was tried" — as a boolean over what
    is observed of a run of main()/connect_mx() (harness op ca) and as Props over the composed model. *)
From Coq Require Import List NArith ZArith Bool Arith.
From Qv Require Import Common.Bytes Gen.GenMx Gen.GenStarttls Model.NetRead Model.TlsClient Model.QrConnect
  Model.Mx Model.MxConnect Spec.MxSpec.
Import ListNotations.
Local Open Scope bool_scope.

Definition zeros (l : list N) : nat := length (filter (fun o => N.eqb o 0) l).

Fixpoint nat_list_eqb (a b : list nat) : bool :=
  match a, b with
  | [], [] => true
  | x :: a', y :: b' => Nat.eqb x y && nat_list_eqb a' b'
  | _, _ => false
  end.

(** observation: [atts] = index (in list order) of every candidate connect() was called for, in call order;
    [nconn] = connections established; [used] = a connection was handed to send_envelope();
    [noconn] = "can't connect to any server" was reported; [total] candidates, [oracle] their connect() outcomes.

    in order and never twice: the attempts are 0, 1, 2, ...; established = outcome 0 among the attempted;
    a used connection is the last attempt; "can't connect" only after all.  [strict]: a run that ends
    without a used connection must have tried every candidate (the property's last clause in full). *)
Definition spec_ok_C20_connect (strict : bool) (total : nat) (oracle : list N)
           (atts : list nat) (nconn : nat) (used noconn : bool) : bool :=
  let n := length atts in
  nat_list_eqb atts (seq 0 n)
  && Nat.leb n total
  && Nat.eqb nconn (zeros (firstn n oracle))
  && (if used then negb noconn && Nat.ltb 0 n && N.eqb (nth (n - 1) oracle 1%N) 0 else true)
  && (if noconn then Nat.eqb n total else true)
  && (if strict && negb used then Nat.eqb n total else true).

(** the known class: the run ended without using a connection although candidates were left *)
Definition early_exit_b (total : nat) (atts : list nat) (used : bool) : bool :=
  negb used && Nat.ltb (length atts) total.

(* ---- on the model ---- *)
Definition pre_connect (k : mcase) : Prop :=
  Forall fresh (m_list k) /\ zeros (firstn (total_addrs (m_list k)) (m_oracle k)) <= length (m_servers k).

(** how a run of the connect phase ends, for the statement of the clause *)
Definition ends_without_connection (p : phase_end) : Prop :=
  match p with PExited _ => True | _ => False end.

Definition all_tried (k : mcase) (atts : list attempt) : Prop :=
  map fst atts = flat_addrs (m_list k).

(** the last clause in full: whenever Qremote gives up, every candidate has been tried *)
Definition C20_temp_failure_after_all_full : Prop :=
  forall k, pre_connect k ->
    let '(p, atts) := connect_phase_c true true k in
    ends_without_connection p -> all_tried k atts.

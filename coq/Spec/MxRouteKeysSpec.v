(** C20: the documented meaning of the smtproutes.d keys and of an address literal as target
    (doc/man/Qremote.8), as reference functions; boolean checker for harness op 08. *)
From Coq Require Import List NArith Bool Arith.
From Qv Require Import Common.Bytes Gen.GenMx Model.Mx Model.MxRoute Model.InetPton Model.InetPtonVal Model.MxRouteKeys
  Spec.MxRouteSpec.
Import ListNotations.
Local Open Scope bool_scope.

(** content of the first probed name that exists, and whether it was found as the last resort "default" *)
Fixpoint first_file_x (files : list (bytes * bytes)) (names : list bytes) : option (bytes * bool) :=
  match names with
  | [] => None
  | [n] => match assoc n files with Some c => Some (c, true) | None => None end
  | n :: r => match assoc n files with Some c => Some (c, false) | None => first_file_x files r end
  end.

Definition routes_ref_x (cfg : route_cfg) (ke : key_env) (remhost : bytes) : route_x :=
  match routes_file cfg with
  | None => XRoute None ROUTE_DEFAULT_PORT false (line_settings cfg ke)
  | Some content =>
      match find (line_matches remhost) (filter hascolon_ok (load_lines content)) with
      | Some l => eval_line_x cfg ke l
      | None => XRoute None ROUTE_DEFAULT_PORT false (line_settings cfg ke)
      end
  end.

(** "Only values from one file are considered": everything comes from the first file found *)
Definition route_ref_x (cfg : route_cfg) (ke : key_env) (remhost : bytes) : route_x :=
  if dir_exists cfg then
    match first_file_x (dir_files cfg) (probe_names remhost) with
    | Some (content, d) => eval_file_x cfg ke d content
    | None => routes_ref_x cfg ke remhost
    end
  else routes_ref_x cfg ke remhost.

Definition erase_x (r : route_x) : route_result :=
  match r with XFatal _ => RouteFatal | XRoute mx p _ _ => Route mx p end.

(** what is visible of the settings in Qremote's globals after smtproute() *)
Definition cert_name (s : settings) : bytes :=
  match s_cert s with Some c => c | None => ROUTE_DEFAULT_CERT end.
(** "clientkey: if not given clientcert is used" *)
Definition key_name (s : settings) : bytes :=
  match s_key s with
  | Some k => k
  | None => match s_cert s with
            | Some c => c
            | None => if s_defkey s then ROUTE_DEFAULT_KEY else ROUTE_DEFAULT_CERT
            end
  end.
Definition zero_addr : addr := repeat 0%N 16.
Definition addr_or_zero (o : option addr) : addr := match o with Some a => a | None => zero_addr end.

Inductive route_obs : Type :=
| OFatal (why : N)
| ORoute (mx : option (list addr)) (port : N) (named tls : bool) (cert key : bytes) (oip oip6 : addr).

Definition observe (r : route_x) : route_obs :=
  match r with
  | XFatal c => OFatal c
  | XRoute m p n s => ORoute m p n (s_expect_tls s) (cert_name s) (key_name s) (addr_or_zero (s_oip s)) (addr_or_zero (s_oip6 s))
  end.

Definition route_obs_eqb (a b : route_obs) : bool :=
  match a, b with
  | OFatal c, OFatal d => N.eqb c d
  | ORoute m p n t c k o o6, ORoute m' p' n' t' c' k' o' o6' =>
      opt_addrs_eqb m m' && N.eqb p p' && Bool.eqb n n' && Bool.eqb t t' && list_eqb c c' && list_eqb k k'
      && list_eqb o o' && list_eqb o6 o6'
  | _, _ => false
  end.

Definition pre_C20_route_x (remhost : bytes) : bool := Nat.leb (length remhost) 254.

Definition spec_ok_C20_route_x (cfg : route_cfg) (ke : key_env) (remhost : bytes) (obs : route_obs) : bool :=
  route_obs_eqb (observe (route_ref_x cfg ke remhost)) obs.

(* ------------------------------------------------------------------ an address literal as target *)
From Qv Require Import Model.MxDns Spec.MxSpec Spec.MxDnsSpec.

Definition getmxlist_ref_x (cfg : route_cfg) (tab : list (bytes * dns_entry)) (flag : N) (recs : list (N * bytes)) (remhost : bytes)
  : mxlist_result :=
  match target_literal remhost with
  | Some (Some a) => GList [mkmx 0 253 [a]] DEFAULT_PORT
  | Some None => GDie 3
  | None => getmxlist_ref cfg tab flag recs remhost
  end.

Definition pre_C20_main_x (cfg : route_cfg) (tab : list (bytes * dns_entry)) (recs : list (N * bytes)) (remhost : bytes) : bool :=
  match target_literal remhost with Some _ => true | None => pre_C20_main cfg tab recs remhost end.

Definition spec_ok_C20_main_x (cfg : route_cfg) (tab : list (bytes * dns_entry)) (flag : N) (recs : list (N * bytes)) (remhost : bytes)
           (gia_fails : bool) (ifs : list iface) (oracle : list N) (obs : main_obs) : bool :=
  match getmxlist_ref_x cfg tab flag recs remhost, obs with
  | GDie w, ODie w' => N.eqb w w'
  | GList l port, OAllMe port' => N.eqb port port' && spec_ok_C20_allme port gia_fails ifs (map zero_ident l)
  | GList l port, ORun port' l1 l2 outs =>
      N.eqb port port' && spec_ok_C20_targets port gia_fails ifs (map zero_ident l) oracle l1 l2 outs
  | _, _ => false
  end.

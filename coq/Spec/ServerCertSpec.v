(** C17, find_servercert(): what the function is for, as a judgement of one observed call.
    [spec_ok_call] looks at the return value and at the certificate name left in certfilename:
    0 exactly when one of servercert.pem.<ip>:<port>, servercert.pem.<ip>, servercert.pem exists (in that
    order of preference), and then certfilename is "control/" + the first of them that exists. *)
From Qv Require Import Common.Bytes Gen.GenServerCert Model.ServerCert.

Definition spec_ok_call (ex : bytes -> bool) (ip : bytes) (port : option bytes) (rc : Z) (certname : bytes) : bool :=
  match chosen ex ip port with
  | Some sfx => Z.eqb rc 0 && bytes_eqb certname (SC_CERT ++ sfx)
  | None => Z.eqb rc (-1)
  end.

Fixpoint spec_ok_servercert (exs : list (bytes -> bool)) (ip : bytes) (port : option bytes)
  (obs : list (Z * bytes)) : bool :=
  match exs, obs with
  | [], [] => true
  | ex :: r, (rc, cn) :: o => spec_ok_call ex ip port rc cn && spec_ok_servercert r ip port o
  | _, _ => false
  end.

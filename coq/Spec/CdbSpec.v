(** What a well-formed constant database is (cdb format: 256 table pointers, records, open-addressing hash
    tables) and what a lookup in it has to return.  [cdb_wf f recs]: the bytes [f] are a constant database
    holding exactly the records [recs] (key, value), in this order. *)
From Qv Require Import Common.Bytes Gen.GenCdb Model.Cdb.

(** the file contains the bytes [bs] at offset [o] *)
Definition has (f : bytes) (o : N) (bs : bytes) : Prop :=
  (o + N.of_nat (length bs) <= N.of_nat (length f))%N /\ sub f (N.to_nat o) (length bs) = bs.

(** slot reached from slot [st] after [d] steps of "if (++h2 == n) h2 = 0" *)
Definition probe (n st d : nat) : nat := Nat.iter d (nxt n) st.

Definition key_of (recs : list (bytes * bytes)) (i : nat) : bytes := fst (nth i recs ([], [])).
Definition hash_of (recs : list (bytes * bytes)) (i : nat) : N := std_hash (key_of recs i).

(** record [i] sits in the table [sl] where a lookup finds it: walking from the start slot of its hash one
    meets only occupied slots before it, and none of them holds a LATER record with the same key *)
Definition chain (recs : list (bytes * bytes)) (sl : list islot) (i : nat) : Prop :=
  let n := length sl in
  let st := start_slot (hash_of recs i) n in
  exists d, d < n /\ nth (probe n st d) sl None = Some i /\
    forall d', d' < d -> exists j, nth (probe n st d') sl None = Some j /\ (key_of recs j = key_of recs i -> j < i).

Definition table_ok (recs : list (bytes * bytes)) (t : N) (sl : list islot) : Prop :=
  (forall s j, nth s sl None = Some j -> j < length recs /\ (hash_of recs j mod 256 = t)%N) /\
  (forall i, i < length recs -> (hash_of recs i mod 256 = t)%N -> chain recs sl i).

Definition cdb_wf (f : bytes) (recs : list (bytes * bytes)) : Prop :=
  (N.of_nat (length f) < M32)%N /\ Forall (fun b => (b < 256)%N) f /\
  exists (ps : list N) (tbls : list (N * list islot)),
    length ps = length recs /\ length tbls = 256 /\
    (forall i, i < length recs ->
       (0 < nth i ps 0)%N /\ has f (nth i ps 0%N) (ser_rec (nth i recs ([], [])))) /\
    (forall t, t < 256 ->
       let tp := fst (nth t tbls (0%N, [])) in
       let sl := snd (nth t tbls (0%N, [])) in
       has f (8 * N.of_nat t) (le32 tp ++ le32 (N.of_nat (length sl))) /\
       has f tp (concat (map (ser_islot (map (fun kv => std_hash (fst kv)) recs) ps) sl)) /\
       table_ok recs (N.of_nat t) sl).

(** the value of the first record with key [k] *)
Definition lookup (recs : list (bytes * bytes)) (k : bytes) : option bytes :=
  match find (fun kv => bytes_eqb (fst kv) k) recs with
  | Some kv => Some (snd kv)
  | None => None
  end.

(** keys as vget_dir() builds them: no NUL, 7 bit (cdb_hash takes plain char: for bytes >= 128 it differs from
    the hash of the file format) *)
Definition ascii_key (k : bytes) : Prop := Forall (fun b => (0 < b < 128)%N) k.

(** C09 (exchange part) — what one AUTH command may do, as a checker over what
    can be observed of it: the return value, xmitstat.authname afterwards, the
    (user, password) pairs handed to the backend, the replies written, what was
    written to descriptor 3 of the checkpassword child, and how many
    net_readline() results were consumed.

    Parameters: [dec] the Base64 decoder ([None] = rejected) and [verdict] what
    the backend returns for a (user, password) pair (0 = accepted). *)
From Qv Require Import Common.Bytes Common.AuthDefs Gen.GenAuth.

Record aobs : Type := {
  o_rc : Z; o_an : bytes; o_calls : list (bytes * bytes); o_out : list bytes;
  o_pipes : list bytes; o_nreads : nat }.

Definition nilb (l : bytes) : bool := match l with [] => true | _ => false end.

(** the client's continuation lines: net_readline results are glued together
    until one ends in LF; the LF and one CR in front of it are not part of the
    line; a read error ends the exchange *)
Definition strip_eol (l : bytes) : bytes :=
  let l := removelast l in
  if N.eqb (last l 0%N) CR then removelast l else l.

Fixpoint client_lines (r : list rdres) (cur : bytes) : list bytes :=
  match r with
  | [] => []
  | RdErr _ :: _ => []
  | RdChunk b :: r' =>
      let cur := cur ++ b in
      if N.eqb (last cur 0%N) LF then strip_eol cur :: client_lines r' [] else client_lines r' cur
  end.

(** RFC 4616: [authzid] NUL authcid NUL passwd *)
Fixpoint split0 (d : bytes) : list bytes :=
  match d with
  | [] => [[]]
  | c :: d' =>
      if N.eqb c 0 then [] :: split0 d'
      else match split0 d' with
           | f :: fs => (c :: f) :: fs
           | [] => [[c]]
           end
  end.

Definition nonempty_pair (u p : bytes) : option (bytes * bytes) :=
  if nilb u || nilb p then None else Some (u, p).

Definition plain_creds (d : bytes) : option (bytes * bytes) :=
  match split0 d with
  | _ :: u :: p :: _ => nonempty_pair u p
  | _ => None
  end.

Fixpoint mech_of (type : bytes) (mechs : list (bytes * N)) : option N :=
  match mechs with
  | [] => None
  | (t, h) :: r => if mech_match t type then Some h else mech_of type r
  end.

Section Spec.
Variable dec : bytes -> option bytes.
Variable verdict : bytes -> bytes -> Z.

(** the Base64 texts of an exchange: the initial response if the command line
    has one, then the client's lines *)
Definition blobs_of (linein : bytes) (reads : list rdres) : list bytes :=
  let lines := client_lines reads [] in
  if Nat.ltb AUTH_IR_OFF (length linein) then skipn AUTH_IR_OFF linein :: lines else lines.

(** the credentials they carry for mechanism [h] (0 = LOGIN: user, then password; else PLAIN) *)
Definition creds_of_blobs (h : N) (blobs : list bytes) : option (bytes * bytes) :=
  if N.eqb h 0 then
    match blobs with
    | b0 :: b1 :: _ =>
        match dec b0, dec b1 with
        | Some u, Some p => nonempty_pair u p
        | _, _ => None
        end
    | _ => None
    end
  else
    match blobs with
    | b0 :: _ => match dec b0 with Some d => plain_creds d | None => None end
    | [] => None
    end.

Definition expected (linein : bytes) (reads : list rdres) : option (bytes * bytes) :=
  match mech_of (skipn AUTH_TYPE_OFF linein) AUTH_MECHS with
  | None => None
  | Some h => creds_of_blobs h (blobs_of linein reads)
  end.

Definition spec_permitted (c : acfg) : bool :=
  auth_host_set c && (negb (sslauth_on c) || ssl_on c).

Definition has_code (code : bytes) (out : list bytes) : bool :=
  existsb (fun m => bytes_eqb (firstn 3 m) code) out.

Definition pair_eqb (a b : bytes * bytes) : bool :=
  bytes_eqb (fst a) (fst b) && bytes_eqb (snd a) (snd b).

(** The statement of C09 for one AUTH command.
    Refused (already authenticated, no checkpassword setup, forcesslauth
    without TLS): nothing happens at all.
    Otherwise: the backend is asked at most once and only with the credentials
    of the exchange; authname afterwards is the user of a call the backend
    answered with 0 and empty in every other case; "235" is said exactly when
    an identity was set; 0 is returned only then. *)
Definition auth_ok (c : acfg) (an0 linein : bytes) (reads : list rdres) (o : aobs) : bool :=
  if negb (nilb an0) || negb (spec_permitted c) then
    Z.eqb (o_rc o) 1 && bytes_eqb (o_an o) an0
    && match o_calls o, o_out o, o_nreads o with [], [], O => true | _, _, _ => false end
  else
    match o_calls o with
    | [] => nilb (o_an o)
    | [(u, p)] =>
        match expected linein (firstn (o_nreads o) reads) with
        | Some e => pair_eqb e (u, p)
        | None => false
        end
        && bytes_eqb (o_an o) (if Z.eqb (verdict u p) 0 then u else [])
    | _ => false
    end
    && Bool.eqb (has_code [50; 51; 53]%N (o_out o)) (negb (nilb (o_an o)))
    && (if Z.eqb (o_rc o) 0 then negb (nilb (o_an o)) else true).

End Spec.

(** what the checkpassword program gets on descriptor 3 *)
Definition fd3 (u p : bytes) : bytes := u ++ [0%N] ++ p ++ [0%N] ++ [0%N].

Fixpoint prefixb (a b : bytes) : bool :=
  match a, b with
  | [], _ => true
  | x :: a', y :: b' => N.eqb x y && prefixb a' b'
  | _, _ => false
  end.

(** [real]: the checkpassword backend was in use; [fault]: the OS failure
    injected into it (0 = none, 1 = no pipe could be created) *)
Definition pipes_ok (real : bool) (fault : N) (o : aobs) : bool :=
  match o_calls o, o_pipes o with
  | [], [] => true
  | [(u, p)], [pp] => real && (if N.eqb fault 0 then bytes_eqb pp (fd3 u p) else prefixb pp (fd3 u p))
  | [(u, p)], [] => negb real || N.eqb fault 1
  | _, _ => false
  end.

(** ---- the checker as used on the C harness' output.  A case names its
    backend by (mode, val): 0 = stand-in returning val, 1 = returning -val,
    2 = stand-in failing with tempnoauth, 3 = the checkpassword backend whose
    child exits with val, 4 = child killed, 5 = OS fault val injected. *)
From Qv Require Import Spec.Base64Spec.

Definition case_verdict (mode val : N) : Z :=
  if N.eqb mode 0 then Z.of_N val
  else if N.eqb mode 1 then (- Z.of_N val)%Z
  else if N.eqb mode 3 then (if N.eqb val 0 then 0%Z else 1%Z)
  else (-1)%Z.

Definition strict_dec (b : bytes) : option bytes :=
  match strict_decode b with Some d => Some (strip0 d) | None => None end.

Definition spec_ok_C09_auth (mode val : N) (c : acfg) (an0 linein : bytes) (reads : list rdres) (o : aobs) : bool :=
  auth_ok strict_dec (fun _ _ => case_verdict mode val) c an0 linein reads o
  && pipes_ok (N.leb 3 mode) (if N.eqb mode 5 then val else 0%N) o.

(** C07 for multipart messages: the structure RFC 2046 defines, as data, and what "delivered unchanged,
    the parts recoded individually" means for it.  No model in here: the delimiter test, the split of
    a body at its delimiter lines, and the relation between a well-formed entity and the octets sent. *)
From Qv Require Import Common.Bytes Gen.GenQrdata Spec.SmtpDataSpec Spec.DeliverSpec.
Require Import Lia.

Definition eolc (c : N) : bool := N.eqb c CR || N.eqb c LF.
Definition wsc (c : N) : bool := N.eqb c SP || N.eqb c HT || N.eqb c CR || N.eqb c LF.
Definition nthb (u : bytes) (i : nat) : N := nth i u 0%N.

(** a delimiter at [q] in [u]: the line end in front of it, "--", the boundary, and behind it the end
    of the data, white space, or "--" followed by the end of the data or white space *)
Definition delim_at (bnd u : bytes) (q : nat) : bool :=
  let p1 := q + 3 + length bnd in
  Nat.leb p1 (length u) && eolc (nthb u q) && N.eqb (nthb u (q + 1)) DASH && N.eqb (nthb u (q + 2)) DASH
  && bytes_eqb (sub u (q + 3) (length bnd)) bnd
  && (Nat.eqb p1 (length u) || wsc (nthb u p1)
      || (Nat.ltb (p1 + 1) (length u) && N.eqb (nthb u p1) DASH && N.eqb (nthb u (p1 + 1)) DASH
          && (Nat.eqb (p1 + 2) (length u) || wsc (nthb u (p1 + 2))))).

(** the first delimiter at or behind [q] *)
Fixpoint find_delim_from (bnd u : bytes) (fuel q : nat) : option nat :=
  match fuel with
  | O => None
  | S f => if delim_at bnd u q then Some q else find_delim_from bnd u f (S q)
  end.
Definition find_delim (bnd u : bytes) : option nat := find_delim_from bnd u (length u) 0.

(** transport padding and the line end behind a delimiter: blanks, then CR, LF or CRLF *)
Definition strip_eol (y : bytes) : bytes :=
  match y with
  | c :: r => if N.eqb c CR then match r with c2 :: r2 => if N.eqb c2 LF then r2 else r | [] => r end
              else if N.eqb c LF then r else y
  | [] => []
  end.
Definition strip_tpad (x : bytes) : bytes := strip_eol (drop_blanks x).
(** behind the padding the line ends (or the data) *)
Definition line_ends (x : bytes) : bool :=
  match drop_blanks x with c :: _ => eolc c | [] => true end.
Definition starts_dash (x : bytes) : bool := match x with c :: _ => N.eqb c DASH | [] => false end.

(** C07 for multipart messages: the structure RFC 2046 defines, as data, and what "delivered unchanged,
    the parts recoded individually" means for it.  No model in here: the delimiter test, the split of
    a body at its delimiter lines, and the relation between a well-formed entity and the octets sent. *)
From Qv Require Import Common.Bytes Gen.GenQrdata Spec.SmtpDataSpec Spec.DeliverSpec.
Require Import Lia.

Definition eolc (c : N) : bool := N.eqb c CR || N.eqb c LF.
Definition wsc (c : N) : bool := N.eqb c SP || N.eqb c HT || N.eqb c CR || N.eqb c LF.
Definition nthb (u : bytes) (i : nat) : N := nth i u 0%N.

(** a delimiter at [q] in [u]: the line end in front of it, "--", the boundary, and behind it the end
    of the data, white space, or "--" followed by the end of the data or white space *)
Definition delim_at (bnd u : bytes) (q : nat) : bool :=
  let p1 := q + 3 + length bnd in
  Nat.leb p1 (length u) && eolc (nthb u q) && N.eqb (nthb u (q + 1)) DASH && N.eqb (nthb u (q + 2)) DASH
  && bytes_eqb (sub u (q + 3) (length bnd)) bnd
  && (Nat.eqb p1 (length u) || wsc (nthb u p1)
      || (Nat.ltb (p1 + 1) (length u) && N.eqb (nthb u p1) DASH && N.eqb (nthb u (p1 + 1)) DASH
          && (Nat.eqb (p1 + 2) (length u) || wsc (nthb u (p1 + 2))))).

(** the first delimiter at or behind [q] *)
Fixpoint find_delim_from (bnd u : bytes) (fuel q : nat) : option nat :=
  match fuel with
  | O => None
  | S f => if delim_at bnd u q then Some q else find_delim_from bnd u f (S q)
  end.
Definition find_delim (bnd u : bytes) : option nat := find_delim_from bnd u (length u) 0.

(** transport padding and the line end behind a delimiter: blanks, then CR, LF or CRLF *)
Definition strip_eol (y : bytes) : bytes :=
  match y with
  | c :: r => if N.eqb c CR then match r with c2 :: r2 => if N.eqb c2 LF then r2 else r | [] => r end
              else if N.eqb c LF then r else y
  | [] => []
  end.
Definition strip_tpad (x : bytes) : bytes := strip_eol (drop_blanks x).
(** behind the padding the line ends (or the data) *)
Definition line_ends (x : bytes) : bool :=
  match drop_blanks x with c :: _ => eolc c | [] => true end.
Definition starts_dash (x : bytes) : bool := match x with c :: _ => N.eqb c DASH | [] => false end.

(** the number of octets [strip_tpad] removes *)
Definition tpad_len (x : bytes) : nat := length x - length (strip_tpad x).
(** needs no recoding whatever the server announced (preamble, epilogue: they are not recoded but replaced) *)
Definition clean (x : bytes) : bool := negb (has_8bit x) && negb (has_long_line x).

(** what is written for a body: quoted-printable that the strict receiver decodes to it, or the body itself *)
Definition body_sent (br : bool) (body B : bytes) : Prop :=
  if br then qp_roundtrip body B else B = stuff (split_lines body).

Section Sent.
Variable m : bytes.
Variable ext8 : bool.
Variable marker : bytes.     (* the two lines of recodeheader() *)
(** the analysis of an entity's header: for the window (b, len) the end of the header [h], the boundary if the
    entity is a multipart, the Content-Transfer-Encoding field (s, l) relative to b (l = 0: none) *)
Variable hdr : nat -> nat -> nat -> option bytes -> nat -> nat -> Prop.

(** the header on the wire: [X1] unfolds to the part in front of the field that is taken out, [X2] to the part behind it *)
Definition hdr_sent (b h : nat) (cutok : bool) (s l : nat) (X1 X2 : bytes) : Prop :=
  let cut := cutok && negb (Nat.eqb l 0) in
  let s' := if cut then s else 0 in
  let e' := if cut then s + l else 0 in
  unfolds_to X1 (stuff (split_lines (sub m b s'))) = true /\
  unfolds_to X2 (stuff (split_lines (sub m (b + e') (h - e')))) = true.

(** [ent_sent b len W]: the entity in the window (b, len) went through the recoder as [W] (complete lines).
    [parts_sent bnd B L W]: (B, L) is what is left of a multipart body at the start of a part. *)
Inductive ent_sent : nat -> nat -> bytes -> Prop :=
| es_single b len h s l br X1 X2 B :
    hdr b len h None s l -> hdr_sent b h br s l X1 X2 ->
    body_sent br (sub m (b + h) (len - h)) B ->
    ent_sent b len (X1 ++ (if br then marker else []) ++ X2 ++ B)
| es_multi b len h bnd s l X1 X2 q0 W :
    hdr b len h (Some bnd) s l -> hdr_sent b h true s l X1 X2 ->
    find_delim bnd (sub m (b + h) (len - h)) = Some q0 ->
    parts_sent bnd (b + h + (q0 + 3 + length bnd + tpad_len (skipn (q0 + 3 + length bnd) (sub m (b + h) (len - h)))))
                   (len - h - (q0 + 3 + length bnd + tpad_len (skipn (q0 + 3 + length bnd) (sub m (b + h) (len - h))))) W ->
    ent_sent b len (X1 ++ X2 ++ stuff (split_lines (sub m (b + h) (S q0) ++ DD ++ bnd)) ++ W)
with parts_sent : bytes -> nat -> nat -> bytes -> Prop :=
| ps_more bnd B L q wp W :
    find_delim bnd (sub m B L) = Some q ->
    (must_recode ext8 (sub m B (S q)) = true -> ent_sent B (S q) wp) ->
    (must_recode ext8 (sub m B (S q)) = false -> wp = stuff (split_lines (sub m B (S q)))) ->
    parts_sent bnd (B + (q + 3 + length bnd + tpad_len (skipn (q + 3 + length bnd) (sub m B L))))
                   (L - (q + 3 + length bnd + tpad_len (skipn (q + 3 + length bnd) (sub m B L)))) W ->
    parts_sent bnd B L (wp ++ DD ++ bnd ++ CRLF ++ W)
| ps_last bnd B L q wp :
    find_delim bnd (sub m B L) = Some q ->
    (must_recode ext8 (sub m B (S q)) = true -> ent_sent B (S q) wp) ->
    (must_recode ext8 (sub m B (S q)) = false -> wp = stuff (split_lines (sub m B (S q)))) ->
    parts_sent bnd B L
      (wp ++ DD ++ bnd ++ DD ++ CRLF ++
       stuff (split_lines (skipn (q + 3 + length bnd + 2 + tpad_len (skipn (q + 3 + length bnd + 2) (sub m B L))) (sub m B L)))).

(** well-formed: the structure RFC 2046 defines, as far as the recoder follows it.  A multipart entity: its body
    has a first delimiter line (the preamble and that line need no recoding: Qremote would replace them), which is
    no close delimiter and ends behind optional padding with a line end; then parts, each up to the next delimiter
    line, the last delimiter being the close delimiter; behind it an epilogue that needs no recoding.  A part that
    needs recoding is an entity of its own and has to be well-formed itself. *)
Inductive wf_ent : nat -> nat -> Prop :=
| wf_single b len h s l : hdr b len h None s l -> wf_ent b len
| wf_multi b len h bnd s l q0 :
    hdr b len h (Some bnd) s l ->
    find_delim bnd (sub m (b + h) (len - h)) = Some q0 ->
    clean (sub m (b + h) (S q0) ++ DD ++ bnd) = true ->
    starts_dash (skipn (q0 + 3 + length bnd) (sub m (b + h) (len - h))) = false ->
    line_ends (skipn (q0 + 3 + length bnd) (sub m (b + h) (len - h))) = true ->
    q0 + 3 + length bnd + tpad_len (skipn (q0 + 3 + length bnd) (sub m (b + h) (len - h))) < len - h ->
    wf_parts bnd (b + h + (q0 + 3 + length bnd + tpad_len (skipn (q0 + 3 + length bnd) (sub m (b + h) (len - h)))))
                 (len - h - (q0 + 3 + length bnd + tpad_len (skipn (q0 + 3 + length bnd) (sub m (b + h) (len - h))))) ->
    wf_ent b len
with wf_parts : bytes -> nat -> nat -> Prop :=
| wfp_more bnd B L q :
    find_delim bnd (sub m B L) = Some q ->
    starts_dash (skipn (q + 3 + length bnd) (sub m B L)) = false ->
    line_ends (skipn (q + 3 + length bnd) (sub m B L)) = true ->
    q + 3 + length bnd + tpad_len (skipn (q + 3 + length bnd) (sub m B L)) < L ->
    (must_recode ext8 (sub m B (S q)) = true -> wf_ent B (S q)) ->
    wf_parts bnd (B + (q + 3 + length bnd + tpad_len (skipn (q + 3 + length bnd) (sub m B L))))
                 (L - (q + 3 + length bnd + tpad_len (skipn (q + 3 + length bnd) (sub m B L)))) ->
    wf_parts bnd B L
| wfp_last bnd B L q :
    find_delim bnd (sub m B L) = Some q ->
    starts_dash (skipn (q + 3 + length bnd) (sub m B L)) = true ->
    line_ends (skipn (q + 3 + length bnd + 2) (sub m B L)) = true ->
    clean (skipn (q + 3 + length bnd + 2 + tpad_len (skipn (q + 3 + length bnd + 2) (sub m B L))) (sub m B L)) = true ->
    (must_recode ext8 (sub m B (S q)) = true -> wf_ent B (S q)) ->
    wf_parts bnd B L.

End Sent.

(** C20 — what "MX hosts are tried in ascending preference order, IPv6 before IPv4 at equal
    preference, each address at most once, moving on after a failure; local addresses are
    never contacted on port 25; -ENOENT only after every candidate was tried" means, as
    [Prop]s over lists of MX entries and as boolean checkers that are run on the C outputs. *)
From Coq Require Import List NArith Bool Arith Sorting.Permutation Sorting.Sorted.
From Qv Require Import Common.Bytes Gen.GenMx Model.Mx.
Import ListNotations.
Local Open Scope bool_scope.

(* ------------------------------------------------------------------ sorting *)

Definition is_v6 (a : addr) : bool := negb (is_v4mapped a).

(** the entry contains at least one IPv6 address *)
Definition has_v6 (e : mx) : bool := existsb is_v6 (addrs e).

(** [a] may stand before [b]: lower preference value, or the same and not (b has IPv6 while a has none) *)
Definition mx_le (a b : mx) : Prop :=
  (prio a < prio b)%N \/ (prio a = prio b /\ (has_v6 b = true -> has_v6 a = true)).

Definition mx_leb (a b : mx) : bool :=
  N.ltb (prio a) (prio b) || (N.eqb (prio a) (prio b) && implb (has_v6 b) (has_v6 a)).

(** inside an entry: all IPv6 addresses, then all IPv4 addresses *)
Definition v6_first (l : list addr) : Prop :=
  exists l6 l4, l = l6 ++ l4 /\ Forall (fun a => is_v6 a = true) l6 /\ Forall (fun a => is_v6 a = false) l4.

Fixpoint v6_first_b (l : list addr) : bool :=
  match l with
  | [] => true
  | a :: r => if is_v6 a then v6_first_b r else forallb (fun x => negb (is_v6 x)) r
  end.

(** the same MX record, its addresses possibly in another order *)
Definition same_entry (a b : mx) : Prop :=
  prio a = prio b /\ ident a = ident b /\ Permutation (addrs a) (addrs b).

(** [out] is a rearrangement of [inp] (entries and, inside each entry, addresses) *)
Definition rearranged (inp out : list mx) : Prop :=
  exists p, Permutation inp p /\ Forall2 same_entry p out.

Definition sort_spec (inp out : list mx) : Prop :=
  rearranged inp out
  /\ StronglySorted mx_le out
  /\ Forall (fun e => v6_first (addrs e)) out.

(* boolean versions *)
Fixpoint remove_first {A} (p : A -> bool) (l : list A) : option (list A) :=
  match l with
  | [] => None
  | x :: r => if p x then Some r else option_map (cons x) (remove_first p r)
  end.

Fixpoint perm_by {A} (eqb : A -> A -> bool) (l1 l2 : list A) : bool :=
  match l1 with
  | [] => match l2 with [] => true | _ => false end
  | x :: r => match remove_first (eqb x) l2 with
              | None => false
              | Some l2' => perm_by eqb r l2'
              end
  end.

Definition same_entry_b (a b : mx) : bool :=
  N.eqb (prio a) (prio b) && N.eqb (ident a) (ident b) && perm_by list_eqb (addrs a) (addrs b).

Fixpoint ssorted_b (l : list mx) : bool :=
  match l with
  | [] => true
  | a :: r => forallb (mx_leb a) r && ssorted_b r
  end.

Definition spec_ok_C20_sort (inp out : list mx) : bool :=
  perm_by same_entry_b inp out && ssorted_b out && forallb (fun e => v6_first_b (addrs e)) out.

(** precondition of sortmx: a non-empty list of entries that all have an address
    (in6_to_ips() asserts cnt > 0; callers never pass NULL) *)
Definition nonempty (e : mx) : Prop := addrs e <> [].
Definition nonempty_b (e : mx) : bool := match addrs e with [] => false | _ => true end.
Definition pre_C20_sort (inp : list mx) : bool :=
  match inp with [] => false | _ => forallb nonempty_b inp end.

(* ------------------------------------------------------------------ connecting *)

(** the candidates in the order of the list: (entry id, index inside the entry, address) *)
Fixpoint number_from {A} (i : nat) (l : list A) : list (nat * A) :=
  match l with
  | [] => []
  | a :: r => (i, a) :: number_from (S i) r
  end.

Definition targets_of (e : mx) : list (N * nat * addr) :=
  map (fun ia => (ident e, fst ia, snd ia)) (number_from 0 (addrs e)).

Definition flat_targets (l : list mx) : list (N * nat * addr) := concat (map targets_of l).
Definition flat_addrs (l : list mx) : list addr := concat (map addrs l).

(** reference behaviour of one tryconn() call over the not yet tried candidates:
    take them in order, one oracle value per attempt, stop at the first success;
    with nothing left the answer is -ENOENT.  Returns (left over, oracle left, attempts, result). *)
Fixpoint ref_call (rem : list (N * nat * addr)) (oracle : list N) (acc : list attempt)
  : list (N * nat * addr) * list N * list attempt * tc_result :=
  match rem with
  | [] => ([], oracle, rev acc, TcNoent)
  | (id, idx, a) :: r =>
      let att := (a, is_v4mapped a) in
      match oracle with
      | o :: os => if N.eqb o 0 then (r, os, rev (att :: acc), TcConnected id idx)
                   else ref_call r os (att :: acc)
      | [] => ref_call r [] (att :: acc)
      end
  end.

Fixpoint ref_calls (n : nat) (rem : list (N * nat * addr)) (oracle : list N) : list (list attempt * tc_result) :=
  match n with
  | O => []
  | S n' => let '(rem', oracle', atts, res) := ref_call rem oracle [] in
            (atts, res) :: ref_calls n' rem' oracle'
  end.

(** the list as Qremote hands it to connect_mx: nothing tried yet, every entry has an address *)
Definition fresh (e : mx) : Prop := (prio e <= TRYCONN_FRESH_MAX)%N /\ addrs e <> [].
Definition fresh_b (e : mx) : bool := N.leb (prio e) TRYCONN_FRESH_MAX && nonempty_b e.
Definition pre_C20_try (l : list mx) : bool := forallb fresh_b l.

Definition attempt_eqb (a b : attempt) : bool := list_eqb (fst a) (fst b) && Bool.eqb (snd a) (snd b).
Definition result_eqb (a b : tc_result) : bool :=
  match a, b with
  | TcNoent, TcNoent => true
  | TcConnected i x, TcConnected j y => N.eqb i j && Nat.eqb x y
  | _, _ => false
  end.
Fixpoint list_eqb_by {A} (eqb : A -> A -> bool) (a b : list A) : bool :=
  match a, b with
  | [], [] => true
  | x :: a', y :: b' => eqb x y && list_eqb_by eqb a' b'
  | _, _ => false
  end.
Definition out_eqb (a b : list attempt * tc_result) : bool :=
  list_eqb_by attempt_eqb (fst a) (fst b) && result_eqb (snd a) (snd b).

Definition spec_ok_C20_try (l : list mx) (oracle : list N) (outs : list (list attempt * tc_result)) : bool :=
  list_eqb_by out_eqb (ref_calls (length outs) (flat_targets l) oracle) outs.

(** readable consequences, stated over what was observed in a run of several calls *)
Definition all_attempts (outs : list (list attempt * tc_result)) : list addr :=
  map fst (concat (map fst outs)).

(** every candidate at most once and in list order: the attempts are an initial segment of the candidates *)
Definition once_in_order (l : list mx) (outs : list (list attempt * tc_result)) : Prop :=
  exists k, all_attempts outs = firstn k (flat_addrs l).

(** -ENOENT is only ever answered when every candidate has been tried by then *)
Definition noent_only_when_exhausted (l : list mx) (outs : list (list attempt * tc_result)) : Prop :=
  forall i atts, nth_error outs i = Some (atts, TcNoent) ->
    all_attempts (firstn (S i) outs) = flat_addrs l.

(** the IPv4 outgoing address is bound exactly for v4-mapped targets *)
Definition binds_right_family (outs : list (list attempt * tc_result)) : Prop :=
  Forall (fun at_ : attempt => snd at_ = is_v4mapped (fst at_)) (concat (map fst outs)).

(* ------------------------------------------------------------------ local addresses *)

Definition v4_loopback (a : addr) : bool := N.eqb (nth 12 a 0%N) IN_LOOPBACKNET.     (* 127.0.0.0/8 *)
Definition v4_unspecified (a : addr) : bool := list_eqb (skipn 12 a) [0; 0; 0; 0]%N.  (* 0.0.0.0 *)

(** address [a] is the local machine as far as interface address [i] tells *)
Definition me_by (i : iface) (a : addr) : bool :=
  match i with
  | If4 x => is_v4mapped a && (list_eqb (skipn 12 a) (skipn 12 x) || v4_loopback a || v4_unspecified a)
  | If6 x => list_eqb a x
  | IfNull | IfOther => false
  end.

Definition is_me (ifs : list iface) (a : addr) : bool := existsb (fun i => me_by i a) ifs.

(** exactly the local addresses go, order is kept, an entry that loses all its addresses goes too *)
Definition filter_ref (ifs : list iface) (l : list mx) : list mx :=
  filter nonempty_b (map (fun e => set_addrs e (filter (fun a => negb (is_me ifs a)) (addrs e))) l).

Definition no_me (ifs : list iface) (l : list mx) : Prop :=
  Forall (fun e => Forall (fun a => is_me ifs a = false) (addrs e)) l.

Definition mx_eqb (a b : mx) : bool :=
  N.eqb (prio a) (prio b) && N.eqb (ident a) (ident b) && list_eqb_by list_eqb (addrs a) (addrs b).

Definition no_me_b (ifs : list iface) (l : list mx) : bool :=
  forallb (fun e => forallb (fun a => negb (is_me ifs a)) (addrs e)) l.

Definition spec_ok_C20_filter (gia_fails : bool) (ifs : list iface) (inp out : list mx) : bool :=
  if gia_fails then list_eqb_by mx_eqb inp out
  else no_me_b ifs out && list_eqb_by mx_eqb (filter_ref ifs inp) out.

Definition pre_C20_filter (inp : list mx) : bool := forallb nonempty_b inp.

(* ------------------------------------------------------------------ the whole sequence *)

(** observation of harness op 05: list after filtering, list after sorting, the calls *)
Definition spec_ok_C20_targets (port : N) (gia_fails : bool) (ifs : list iface) (inp : list mx) (oracle : list N)
           (l1 l2 : list mx) (outs : list (list attempt * tc_result)) : bool :=
  (if N.eqb port FILTER_PORT then spec_ok_C20_filter gia_fails ifs inp l1 else list_eqb_by mx_eqb inp l1)
  && spec_ok_C20_sort l1 l2
  && spec_ok_C20_try l2 oracle outs
  && (if N.eqb port FILTER_PORT && negb gia_fails
      then forallb (fun a => negb (is_me ifs a)) (all_attempts outs) else true).

Definition spec_ok_C20_allme (port : N) (gia_fails : bool) (ifs : list iface) (inp : list mx) : bool :=
  N.eqb port FILTER_PORT && negb gia_fails && match filter_ref ifs inp with [] => true | _ => false end.

(** C19, receiving side — the message Qsmtpd queues from a sequence of BDAT chunks is the
    concatenated chunk data with CRLF converted to LF, wherever chunk and read boundaries
    fall; a failure in one chunk fails the whole transaction. *)
From Qv Require Import Common.Bytes Model.BdatRx.

(** CRLF -> LF; every other octet (bare CR and bare LF included) is kept *)
Fixpoint crlf2lf (m : bytes) : bytes :=
  match m with
  | [] => []
  | b :: t =>
      match t with
      | c :: t' => if N.eqb b CR && N.eqb c LF then LF :: crlf2lf t' else b :: crlf2lf t
      | [] => [b]
      end
  end.

(** what was written to qmail-queue's data descriptor, in order *)
Fixpoint queued (evs : list ev) : bytes :=
  match evs with
  | [] => []
  | EvQ b :: t => b ++ queued t
  | _ :: t => queued t
  end.

Definition is_env (e : ev) : bool := match e with EvEnv _ => true | _ => false end.
Definition is_q (e : ev) : bool := match e with EvQ _ => true | _ => false end.
Definition is_fail (e : ev) : bool := match e with EvRc E0 => false | EvRc _ => true | _ => false end.

Definition total (cmds : list (nat * bool * nat)) : nat := fold_right (fun c a => fst (fst c) + a) 0 cmds.

(** one transaction: chunks [cmds], only the final one with LAST *)
Definition one_transaction (cmds : list (nat * bool * nat)) : Prop :=
  cmds <> [] /\ forallb (fun c => negb (snd (fst c))) (removelast cmds) = true
  /\ snd (fst (last cmds (0, false, 0))) = true.

(** the events of a transaction that went through: everything queued comes before the
    one envelope, and it is the converted data *)
Definition rx_delivered (data : bytes) (evs : list ev) : Prop :=
  exists pre, evs = pre ++ [EvEnv (length data); EvFree; EvReply 250; EvRc E0]
    /\ existsb is_env pre = false /\ existsb is_fail pre = false
    /\ queued pre = crlf2lf data.

(** a failed command is never followed by an envelope *)
Fixpoint no_env_after_fail (failed : bool) (evs : list ev) : bool :=
  match evs with
  | [] => true
  | e :: t => negb (failed && is_env e) && no_env_after_fail (failed || is_fail e) t
  end.

(** ** boolean checker for the observations of the C code *)
(** walk to the first envelope: index of the command it belongs to, its argument,
    what was queued before, whether every command before succeeded, the rest *)
Fixpoint find_env (evs : list ev) (idx : nat) (q : bytes) (ok : bool)
  : option (nat * nat * bytes * bool * list ev) :=
  match evs with
  | [] => None
  | EvEnv n :: t => Some (idx, n, q, ok, t)
  | EvQ b :: t => find_env t idx (q ++ b) ok
  | EvRc e :: t => find_env t (S idx) q (ok && err_eqb e E0)
  | Ev503 :: t => find_env t (S idx) q ok
  | _ :: t => find_env t idx q ok
  end.

(** the run is expected to deliver: no injected fault, enough data, within the size limit,
    one transaction *)
Definition expect_delivery (cfg : rxcfg) (qf : bool) (cmds : list (nat * bool * nat)) (stream : bytes) (rfail : option nat) : bool :=
  negb qf && match c_wfail cfg with None => true | Some _ => false end
  && match rfail with None => true | Some _ => false end
  && Nat.leb (total cmds) (c_maxbytes cfg) && Nat.leb (total cmds) (length stream)
  && negb (match cmds with [] => true | _ => false end)
  && forallb (fun c => negb (snd (fst c))) (removelast cmds)
  && snd (fst (last cmds (0, false, 0))).

Definition spec_ok_C19_rx (cfg : rxcfg) (qf : bool) (cmds : list (nat * bool * nat)) (stream : bytes) (rfail : option nat)
           (evs : list ev) : bool :=
  no_env_after_fail false evs &&
  match find_env evs 0 [] true with
  | None => negb (expect_delivery cfg qf cmds stream rfail)
  | Some (idx, n, q, ok, rest) =>
      let tot := total (firstn (S idx) cmds) in
      ok && Nat.eqb n tot && bytes_eqb q (crlf2lf (firstn tot stream))
      && negb (existsb is_env rest) && negb (existsb is_q rest)
  end.

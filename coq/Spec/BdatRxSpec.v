(** C19, receiving side — the message Qsmtpd queues from a sequence of BDAT chunks is the
    concatenated chunk data with CRLF converted to LF, wherever chunk and read boundaries
    fall; a failure in one chunk fails the whole transaction. *)
From Qv Require Import Common.Bytes Model.BdatRx.

(** CRLF -> LF; every other octet (bare CR and bare LF included) is kept *)
Fixpoint crlf2lf (m : bytes) : bytes :=
  match m with
  | [] => []
  | b :: t =>
      match t with
      | c :: t' => if N.eqb b CR && N.eqb c LF then LF :: crlf2lf t' else b :: crlf2lf t
      | [] => [b]
      end
  end.

(** what was written to qmail-queue's data descriptor, in order *)
Fixpoint queued (evs : list ev) : bytes :=
  match evs with
  | [] => []
  | EvQ b :: t => b ++ queued t
  | _ :: t => queued t
  end.

Definition is_env (e : ev) : bool := match e with EvEnv _ => true | _ => false end.
Definition is_q (e : ev) : bool := match e with EvQ _ => true | _ => false end.
(** a command refused for its syntax (500; nothing was done) is not a failed chunk *)
Definition rc_ok (e : err) : bool := match e with E0 | EINVAL | E2BIG => true | _ => false end.
Definition is_fail (e : ev) : bool := match e with EvRc e => negb (rc_ok e) | _ => false end.

Definition total (cmds : list (nat * bool * nat)) : nat := fold_right (fun c a => fst (fst c) + a) 0 cmds.

(** one transaction: chunks [cmds], only the final one with LAST *)
Definition one_transaction (cmds : list (nat * bool * nat)) : Prop :=
  cmds <> [] /\ forallb (fun c => negb (snd (fst c))) (removelast cmds) = true
  /\ snd (fst (last cmds (0, false, 0))) = true.

(** the events of a transaction that went through: everything queued comes before the
    one envelope, and it is the converted data *)
Definition rx_delivered (data : bytes) (evs : list ev) : Prop :=
  exists pre, evs = pre ++ [EvEnv (length data); EvFree; EvReply 250; EvRc E0]
    /\ existsb is_env pre = false /\ existsb is_fail pre = false
    /\ queued pre = crlf2lf data.

(** a failed command is never followed by an envelope *)
Fixpoint no_env_after_fail (failed : bool) (evs : list ev) : bool :=
  match evs with
  | [] => true
  | e :: t => negb (failed && is_env e) && no_env_after_fail (failed || is_fail e) t
  end.

(** ** boolean checker for the observations of the C code *)
(** walk to the first envelope: index of the command it belongs to, its argument,
    what was queued before, whether every command before succeeded, the rest *)
Fixpoint find_env (evs : list ev) (idx : nat) (q : bytes) (ok : bool)
  : option (nat * nat * bytes * bool * list ev) :=
  match evs with
  | [] => None
  | EvEnv n :: t => Some (idx, n, q, ok, t)
  | EvQ b :: t => find_env t idx (q ++ b) ok
  | EvRc e :: t => find_env t (S idx) q (ok && rc_ok e)
  | Ev503 :: t => find_env t (S idx) q ok
  | EvRsetOk :: t => find_env t (S idx) q false        (* RSET ends the transaction *)
  | _ :: t => find_env t idx q ok
  end.

(** the run is expected to deliver: no injected fault, enough data, within the size limit,
    one transaction *)
Definition expect_delivery (cfg : rxcfg) (qf : bool) (cmds : list (nat * bool * nat)) (stream : bytes) (rfail : option nat) : bool :=
  negb qf && match c_wfail cfg with None => true | Some _ => false end
  && match rfail with None => true | Some _ => false end
  && Nat.leb (total cmds) (c_maxbytes cfg) && Nat.leb (total cmds) (length stream)
  && negb (match cmds with [] => true | _ => false end)
  && forallb (fun c => negb (snd (fst c))) (removelast cmds)
  && snd (fst (last cmds (0, false, 0))).

Definition cmd_last (c : nat * bool * nat) : bool := snd (fst c).

Definition spec_ok_C19_rx (cfg : rxcfg) (qf : bool) (cmds : list (nat * bool * nat)) (stream : bytes) (rfail : option nat)
           (evs : list ev) : bool :=
  no_env_after_fail false evs &&
  match find_env evs 0 [] true with
  | None => negb (expect_delivery cfg qf cmds stream rfail)
  | Some (idx, n, q, ok, rest) =>
      let tot := total (firstn (S idx) cmds) in
      ok && Nat.eqb n tot && bytes_eqb q (crlf2lf (firstn tot stream))
      && cmd_last (nth idx cmds (0, false, 0)) && forallb (fun c => negb (cmd_last c)) (firstn idx cmds)
      && negb (existsb is_env rest) && negb (existsb is_q rest)
  end.

(** ** the same as a statement (Proofs/BdatRxSpecProofs.v: the checker decides it)

    [evs] = the events of one transaction ([cmds] = its commands in order, one per
    command terminator EvRc / Ev503 / RSET), [stream] = the octets from its start. *)
Fixpoint count_term (evs : list ev) : nat :=
  match evs with
  | [] => 0
  | (EvRc _ | Ev503 | EvRsetOk) :: t => S (count_term t)
  | _ :: t => count_term t
  end.
(** every command so far returned 0 (or was refused for its syntax) and there was no RSET *)
Fixpoint all_ok (evs : list ev) : bool :=
  match evs with
  | [] => true
  | EvRc e :: t => rc_ok e && all_ok t
  | EvRsetOk :: t => false
  | _ :: t => all_ok t
  end.

Definition rx_ok (cfg : rxcfg) (qf : bool) (cmds : list (nat * bool * nat)) (stream : bytes) (rfail : option nat)
           (evs : list ev) : Prop :=
  (* a failed command is never followed by an envelope *)
  no_env_after_fail false evs = true
  (* the first envelope: sent by a LAST command whose predecessors all succeeded and were not LAST, announcing
     exactly the octets of these commands; what was queued before is exactly their data, CRLF -> LF; nothing is
     queued and no envelope is sent afterwards *)
  /\ (forall pre n rest, evs = pre ++ EvEnv n :: rest -> existsb is_env pre = false ->
        let idx := count_term pre in
        let tot := total (firstn (S idx) cmds) in
        all_ok pre = true /\ n = tot /\ queued pre = crlf2lf (firstn tot stream)
        /\ cmd_last (nth idx cmds (0, false, 0)) = true
        /\ forallb (fun c => negb (cmd_last c)) (firstn idx cmds) = true
        /\ existsb is_env rest = false /\ existsb is_q rest = false)
  (* and when nothing is in the way the message is delivered *)
  /\ (expect_delivery cfg qf cmds stream rfail = true -> existsb is_env evs = true).

(** ** sessions (several transactions): the events are cut at every accepted transaction start
    EvBegin pos; the commands of the script are attributed to the events by their terminators *)
Definition is_term (e : ev) : bool := match e with EvRc _ | Ev503 | EvRsetOk | EvBegin _ => true | _ => false end.

(** the events of one script record: up to and including its terminator *)
Fixpoint take_rec (evs : list ev) : list ev * list ev :=
  match evs with
  | [] => ([], [])
  | e :: t => if is_term e then ([e], t) else let '(g, r) := take_rec t in (e :: g, r)
  end.

Fixpoint align (ops : list sop) (evs : list ev) : list (sop * list ev) * list ev :=
  match ops with
  | [] => ([], evs)
  | op :: r => let '(g, rest) := take_rec evs in let '(l, rem) := align r rest in ((op, g) :: l, rem)
  end.

(** the specification's reading of a BDAT command line: "BDAT" SP 1*DIGIT [SP "LAST"], the number
    in decimal below 2^64 (what strtoull accepts), LAST in any case, nothing else *)
Definition is_dig (b : N) : bool := N.leb 48 b && N.leb b 57.
Fixpoint digits_val (d : bytes) (acc : N) : N :=
  match d with [] => acc | b :: t => digits_val t (acc * 10 + (b - 48))%N end.
Fixpoint span_digits (l : bytes) : bytes * bytes :=
  match l with
  | b :: t => if is_dig b then let '(d, r) := span_digits t in (b :: d, r) else ([], l)
  | [] => ([], [])
  end.
Definition is_last_word (w : bytes) : bool :=
  match w with
  | [l; a; s; t] => (N.eqb l 76 || N.eqb l 108) && (N.eqb a 65 || N.eqb a 97) && (N.eqb s 83 || N.eqb s 115) && (N.eqb t 84 || N.eqb t 116)
  | _ => false
  end.
Definition is_bdat_sp (p : bytes) : bool :=
  match p with
  | [b; d; a; t; sp] => (N.eqb b 66 || N.eqb b 98) && (N.eqb d 68 || N.eqb d 100) && (N.eqb a 65 || N.eqb a 97)
                        && (N.eqb t 84 || N.eqb t 116) && N.eqb sp 32
  | _ => false
  end.
Definition bdat_arg (line : bytes) : option (N * bool) :=
  if existsb (fun b => N.eqb b 0) line then None else       (* a NUL inside the line *)
  if negb (is_bdat_sp (firstn 5 line)) then None else
  let '(d, r) := span_digits (skipn 5 line) in
  match d with
  | [] => None
  | _ => if N.ltb 18446744073709551615 (digits_val d 0) then None else
         match r with
         | [] => Some (digits_val d 0, false)
         | sp :: w => if N.eqb sp 32 && is_last_word w then Some (digits_val d 0, true) else None
         end
  end.

(** one script record as a command of the single-transaction statement; a chunk size beyond the
    [slen] octets the peer ever sends is cut to slen + 1 (such a command cannot complete) *)
Definition rec_cmd (slen : nat) (r : sop * list ev) : nat * bool * nat :=
  match fst r with
  | OpLine _ line => match bdat_arg line with
                     | Some (n, l) => (N.to_nat (N.min n (N.of_nat (S slen))), l, 0)
                     | None => (0, false, 0) end
  | _ => (0, false, 0)
  end.
Definition rec_valid (r : sop * list ev) : bool :=
  match fst r with
  | OpLine _ line => Nat.leb (length line) 510 && match bdat_arg line with Some _ => true | None => false end
  | _ => false
  end.
Definition rec_begin (r : sop * list ev) : option (nat * bool) :=
  match fst r, last (snd r) Ev503 with
  | OpBegin _ qf, EvBegin pos => Some (pos, qf)
  | _, _ => None
  end.

(** cut the records into the prelude and the transactions (start position, queue_init fault, records) *)
Fixpoint segments (recs : list (sop * list ev)) (cur : option (nat * bool * list (sop * list ev)))
         (acc : list (nat * bool * list (sop * list ev))) (prelude : list (sop * list ev))
  : list (sop * list ev) * list (nat * bool * list (sop * list ev)) :=
  match recs with
  | [] => (prelude, acc ++ match cur with Some c => [c] | None => [] end)
  | r :: t =>
      match rec_begin r with
      | Some (pos, qf) => segments t (Some (pos, qf, [])) (acc ++ match cur with Some c => [c] | None => [] end) prelude
      | None => match cur with
                | Some (pos, qf, l) => segments t (Some (pos, qf, l ++ [r])) acc prelude
                | None => segments t None acc (prelude ++ [r])
                end
      end
  end.

Definition seg_events (l : list (sop * list ev)) : list ev := concat (map snd l).

(** every transaction of a session satisfies the single-transaction statement with ITS commands and
    the stream from ITS start; outside transactions nothing is queued *)
Definition rxs_ok (cfg : rxcfg) (ops : list sop) (stream : bytes) (rfail : option nat) (evs : list ev) : Prop :=
  let '(recs, rem) := align ops evs in
  let '(prelude, segs) := segments recs None [] [] in
  rem = [] /\ existsb is_env (seg_events prelude) = false /\ existsb is_q (seg_events prelude) = false
  /\ Forall (fun sg => let '(pos, qf, l) := sg in
        rx_ok cfg (qf || negb (forallb rec_valid l)) (map (rec_cmd (length stream)) l) (skipn pos stream) rfail (seg_events l)) segs.

Definition spec_ok_C19_rxs (cfg : rxcfg) (ops : list sop) (stream : bytes) (rfail : option nat) (evs : list ev) : bool :=
  let '(recs, rem) := align ops evs in
  let '(prelude, segs) := segments recs None [] [] in
  match rem with [] => true | _ => false end
  && negb (existsb is_env (seg_events prelude)) && negb (existsb is_q (seg_events prelude))
  && forallb (fun sg => let '(pos, qf, l) := sg in
        spec_ok_C19_rx cfg (qf || negb (forallb rec_valid l)) (map (rec_cmd (length stream)) l) (skipn pos stream) rfail (seg_events l)) segs.

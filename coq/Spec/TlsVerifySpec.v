(** Property C01, third entitlement: "... or it presented a TLS client certificate that verifies against
    clientca.pem and whose address is listed in control/tlsclients."

    [cert_entitles e name]: what the oracles of one call must have answered for the certificate to entitle the
    client, written without reference to the code: TLS is active; control/tlsclients was read and gave a list;
    the CA file was loaded; the session id context was set (OpenSSL: 1 = success); the rehandshake that requests
    the certificate succeeded; the verification result is X509_V_OK; a certificate was presented; [name] is the
    string of its first emailAddress entry, or, only when it has no emailAddress entry at all, of its first
    commonName entry; [name] is not empty and is, octet for octet (all octets of the ASN1 string, NUL included),
    one of the entries of tlsclients; and the copy kept as xmitstat.tlsclient could be allocated. *)
From Qv Require Import Common.Bytes Gen.GenTlsVerify Model.TlsVerify.
Local Open Scope Z_scope.

(** the address a certificate stands for: emailAddress (tag 1) before commonName (tag 2) *)
Definition spec_name (s : subject) : option bytes :=
  match find_nid 1%N s with
  | Some d => Some d
  | None => find_nid 2%N s
  end.

(** the entries of tlsclients as C strings (for entries without NUL octet, and loadlistfd() gives no others, this is the identity) *)
Definition entries (cl : list bytes) : list bytes := map cstr cl.

Definition cert_entitles (e : env) (name : bytes) : Prop :=
  e_tls e = true /\
  exists cl subj,
    e_list e = LList cl /\ e_ca e = true /\ e_sid e = 1 /\ 0 <= e_hs e /\ e_verify e = TV_X509_V_OK /\
    e_peer e = Some subj /\ spec_name subj = Some name /\ name <> [] /\ In name (entries cl) /\ e_dup e = true.

(** contract of net_writen() (lib/netio.c: "return netnwrite(msg, len) ? -errno : 0", property C10): never positive *)
Definition netw_ok (e : env) : Prop := e_netw e <= 0.

(** the same as a function *)
Definition entitled_b (e : env) : option bytes :=
  if e_tls e then
    match e_list e, e_peer e with
    | LList cl, Some subj =>
        if e_ca e && Z.eqb (e_sid e) 1 && Z.leb 0 (e_hs e) && Z.eqb (e_verify e) TV_X509_V_OK && e_dup e then
          match spec_name subj with
          | Some name => if negb (Nat.eqb (length name) 0) && existsb (bytes_eqb name) (entries cl) then Some name else None
          | None => None
          end
        else None
    | _, _ => None
    end
  else None.

(** ------------------------------------------------------------------ the checker used on the C output *)

(** what the harness prints per call: result, then relayclient, ssl_verified, xmitstat.tlsclient, the oracle letters *)
Record obs := { ob_out : outcome; ob_relay : Z; ob_verified : bool; ob_tlsclient : option bytes; ob_log : list N }.

Definition obs_state (ob : obs) : state := {| verified := ob_verified ob; tlsclient := ob_tlsclient ob; relay := ob_relay ob |}.

Definition opt_bytes_eqb (a b : option bytes) : bool :=
  match a, b with
  | None, None => true
  | Some x, Some y => bytes_eqb x y
  | _, _ => false
  end.

Definition positive (o : outcome) : bool := match o with Ret r => Z.ltb 0 r | Die _ => false end.
Definition is_one (o : outcome) : bool := match o with Ret r => Z.eqb r 1 | Die _ => false end.
Definition failed (o : outcome) : bool := match o with Ret r => Z.ltb r 0 | Die _ => true end.
Definition ran_check (lg : list N) : bool := existsb (N.eqb LL) lg.

(** one call judged against the state before it (taken from the previous observation) *)
Definition check_call (o : op) (e : env) (pre : state) (ob : obs) : bool :=
  let ent := entitled_b e in
  let by_cert := match ent with
                 | Some n => opt_bytes_eqb (ob_tlsclient ob) (Some n) && negb (verified pre) && negb (authed e pre) && ran_check (ob_log ob)
                 | None => false
                 end in
  match o with
  | OpFree =>
      (* the end of a transaction forgets the certificate name and nothing else *)
      opt_bytes_eqb (ob_tlsclient ob) None && Bool.eqb (ob_verified ob) (verified pre) && Z.eqb (ob_relay ob) (relay pre)
      && match ob_log ob with [] => true | _ => false end && match ob_out ob with Ret 0 => true | _ => false end
  | _ =>
  (* xmitstat.tlsclient changes only through an entitling certificate, and then the call reports success *)
  (opt_bytes_eqb (ob_tlsclient ob) (tlsclient pre) || (by_cert && is_one (ob_out ob)))
  (* the expensive check: not when ssl_verified was set; afterwards ssl_verified is set; ssl_verified is never cleared *)
  && (negb (ran_check (ob_log ob)) || (negb (verified pre) && ob_verified ob))
  && (negb (verified pre) || ob_verified ob)
  && match o with
     | OpVerify =>
         (* tls_verify() > 0 exactly when it set xmitstat.tlsclient; it does not touch relayclient *)
         (negb (positive (ob_out ob)) || by_cert)
         && Z.eqb (ob_relay ob) (relay pre)
     | _ =>
         (* relayclient becomes 1 only by the relay list or by the certificate *)
         (negb (Z.eqb (ob_relay ob) 1) || Z.eqb (relay pre) 1
          || (Z.eqb (relay pre) 0 && Z.ltb 0 (e_ipbl e) && negb (authed e pre)) || by_cert)
         (* an error or a dying process never leaves relayclient = 1 *)
         && (negb (failed (ob_out ob)) || negb (Z.eqb (ob_relay ob) 1))
         (* success only for an authenticated client or with relayclient = 1 *)
         && (negb (positive (ob_out ob)) || (is_one (ob_out ob) && (authed e pre || Z.eqb (ob_relay ob) 1)))
     end
  end.

Fixpoint spec_ok_C01t (cs : list (op * env)) (pre : state) (obs_ : list obs) : bool :=
  match cs, obs_ with
  | [], [] => true
  | (o, e) :: cr, ob :: or =>
      check_call o e pre ob &&
      match ob_out ob with
      | Die _ => match or with [] => true | _ => false end
      | Ret _ => spec_ok_C01t cr (obs_state ob) or
      end
  | _, _ => false
  end.

(** the precondition of the theorems: every call's net_writen() oracle respects its contract *)
Definition pre_ok (cs : list (op * env)) : bool := forallb (fun oe => Z.leb (e_netw (snd oe)) 0) cs.

Definition obs_of (res : outcome * state * list N) : obs :=
  let '(o, st, lg) := res in
  {| ob_out := o; ob_relay := relay st; ob_verified := verified st; ob_tlsclient := tlsclient st; ob_log := lg |}.

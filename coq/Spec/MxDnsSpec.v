(** C20: from the route and the MX records to the list handed to sortmx/tryconn — reference
    statements and the boolean checkers run on the C outputs of harness ops 06 and 07. *)
From Coq Require Import List NArith Bool Arith.
From Qv Require Import Common.Bytes Gen.GenMx Model.Mx Model.MxRoute Model.MxDns Spec.MxSpec Spec.MxRouteSpec.
Import ListNotations.
Local Open Scope bool_scope.

(** the MX records whose names have addresses, each with its own preference and all its addresses;
    the C builds the list by putting each new entry in front, hence the [rev] *)
Definition resolvable (tab : list (bytes * dns_entry)) (allrecs : list (N * bytes)) (r : N * bytes) : list mx :=
  match ask_dnsaaaa tab (snd r) with
  | AAddrs a => [mkmx (fst r) (rec_ident allrecs (snd r) 254%N) a]
  | _ => []
  end.
Definition dnsmx_list_ref (tab : list (bytes * dns_entry)) (recs : list (N * bytes)) : list mx :=
  rev (flat_map (resolvable tab recs) recs).

(** DNS preferences are 16 bit *)
Definition prio16 (recs : list (N * bytes)) : Prop := Forall (fun r => (fst r <= 65535)%N) recs.
Definition prio16_b (recs : list (N * bytes)) : bool := forallb (fun r => N.leb (fst r) 65535) recs.

Definition answer_eqb (a b : mx_answer) : bool :=
  match a, b with
  | MxList l, MxList l' => list_eqb_by mx_eqb l l'
  | MxNoHost, MxNoHost | MxNull, MxNull | MxTemp, MxTemp | MxPerm, MxPerm | MxLocal, MxLocal => true
  | _, _ => false
  end.

(** op 06: the answer is the model's, and a list answer is one tryconn can work on *)
Definition spec_ok_C20_dnsmx (tab : list (bytes * dns_entry)) (flag : N) (recs : list (N * bytes)) (name : bytes)
           (obs : mx_answer) : bool :=
  answer_eqb (ask_dnsmx tab flag recs name) obs
  && match obs with
     | MxList l => forallb fresh_b l && match l with [] => false | _ => true end
     | _ => true
     end.

(** what getmxlist() has to deliver, read off the route: relay addresses if the route names a relay,
    else the DNS answer; always the port of the route *)
Definition getmxlist_ref (cfg : route_cfg) (tab : list (bytes * dns_entry)) (flag : N) (recs : list (N * bytes)) (remhost : bytes)
  : mxlist_result :=
  match route_ref (set_dns cfg (plain_table tab)) remhost with
  | RouteFatal => GDie 0
  | RouteOther => GDie 99
  | Route (Some addrs) port => GList [mkmx 0 253 addrs] port
  | Route None port =>
      match ask_dnsmx tab flag recs remhost with
      | MxList l => GList l port
      | MxNull => GDie 1
      | _ => GDie 2
      end
  end.

Definition zero_ident (e : mx) : mx := mkmx (prio e) 0 (addrs e).

Definition pre_C20_main (cfg : route_cfg) (tab : list (bytes * dns_entry)) (recs : list (N * bytes)) (remhost : bytes) : bool :=
  Nat.leb (length remhost) 254 && prio16_b recs
  && match route_ref (set_dns cfg (plain_table tab)) remhost with RouteOther => false | _ => true end.

Inductive main_obs : Type :=
| ODie (why : N)
| OAllMe (port : N)
| ORun (port : N) (l1 l2 : list mx) (outs : list (list attempt * tc_result)).

(** op 07 *)
Definition spec_ok_C20_main (cfg : route_cfg) (tab : list (bytes * dns_entry)) (flag : N) (recs : list (N * bytes)) (remhost : bytes)
           (gia_fails : bool) (ifs : list iface) (oracle : list N) (obs : main_obs) : bool :=
  match getmxlist_ref cfg tab flag recs remhost, obs with
  | GDie w, ODie w' => N.eqb w w'
  | GList l port, OAllMe port' => N.eqb port port' && spec_ok_C20_allme port gia_fails ifs (map zero_ident l)
  | GList l port, ORun port' l1 l2 outs =>
      N.eqb port port' && spec_ok_C20_targets port gia_fails ifs (map zero_ident l) oracle l1 l2 outs
  | _, _ => false
  end.

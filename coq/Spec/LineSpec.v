(** C05 — what "lines end only at CRLF" means, independent of any buffer.

    [ideal_lines s] cuts the stream at every CR LF pair and nowhere else.
    A reader is correct when the lines it hands out are ideal lines that are
    well-formed (no CR or LF inside, at most 999 octets), handed out in stream
    order, whatever the read() schedule. *)
From Qv Require Import Common.Bytes Model.NetRead.

Definition no_crlf (t : bytes) : Prop := Forall (fun b => b <> CR /\ b <> LF) t.

(** a line [l] was cut out of [stream] at a CRLF: the stream is
    pre ++ l ++ CRLF ++ post with |post| = lft *)
Definition line_at (stream l : bytes) (lft : nat) : Prop :=
  exists pre post, stream = pre ++ l ++ [CR; LF] ++ post /\ length post = lft.

(** every CR in [s] is followed by LF and every LF preceded by CR *)
Fixpoint clean_stream (s : bytes) : bool :=
  match s with
  | [] => true
  | b :: s' =>
      if N.eqb b CR then
        match s' with
        | c :: s'' => N.eqb c LF && clean_stream s''
        | [] => false
        end
      else if N.eqb b LF then false
      else clean_stream s'
  end.

(** schedule-free reference: split at CRLF; a line longer than [maxl] is an error item *)
Fixpoint ideal_items (fuel : nat) (maxl : nat) (cur : bytes) (s : bytes) : list item :=
  match s with
  | [] => []                                  (* an unterminated tail is never a line *)
  | b :: s' =>
      match fuel with O => [] | S f =>
      if N.eqb b CR then
        match s' with
        | c :: s'' =>
            if N.eqb c LF then
              (if Nat.leb (length cur) maxl then Line (rev cur) else E2big) :: ideal_items f maxl [] s''
            else ideal_items f maxl (b :: cur) s'
        | [] => []
        end
      else ideal_items f maxl (b :: cur) s'
      end
  end.

(** ------- boolean checker for observations of the implementation ------- *)
(** an observation is a list of (item, bytes lft unconsumed after it) *)
Definition starts_after_crlf (stream : bytes) (a : nat) : bool :=
  Nat.eqb a 0 || (Nat.leb 2 a && bytes_eqb (sub stream (a - 2) 2) [CR; LF]).

Fixpoint shape_ok (stream : bytes) (prevleft : nat) (obs : list (item * nat)) : bool :=
  match obs with
  | [] => true
  | (it, lft) :: obs' =>
      let n := length stream in
      let seg := sub stream (n - prevleft) (prevleft - lft) in
      match it with
      | Line l => Nat.leb lft prevleft && bytes_eqb seg (l ++ [CR; LF]) && no_crlf_b l
                  && Nat.leb (length l) 999 && shape_ok stream lft obs'
      | Einval | E2big => Nat.ltb lft prevleft && shape_ok stream lft obs'
      | Dead => match obs' with [] => true | _ => false end
      | Stuck => false
      end
  end.

(** a line handed out although it does not start at the stream start or after a
    CRLF: part of a malformed line is acted upon *)
Fixpoint resync_ok (stream : bytes) (prevleft : nat) (obs : list (item * nat)) : bool :=
  match obs with
  | [] => true
  | (it, lft) :: obs' =>
      match it with
      | Line _ => starts_after_crlf stream (length stream - prevleft) && resync_ok stream lft obs'
      | _ => resync_ok stream lft obs'
      end
  end.

Fixpoint lines_of (obs : list (item * nat)) : list (bytes * nat) :=
  match obs with
  | [] => []
  | (Line l, lft) :: obs' => (l, lft) :: lines_of obs'
  | _ :: obs' => lines_of obs'
  end.

Fixpoint lines_eqb (a b : list (bytes * nat)) : bool :=
  match a, b with
  | [], [] => true
  | (x, i) :: a', (y, j) :: b' => bytes_eqb x y && Nat.eqb i j && lines_eqb a' b'
  | _, _ => false
  end.

(** runs of consecutive error items collapsed to one *)
Fixpoint collapse (obs : list (item * nat)) (in_err : bool) : list (option (bytes * nat)) :=
  match obs with
  | [] => []
  | (Line l, lft) :: obs' => Some (l, lft) :: collapse obs' false
  | (Einval, _) :: obs' | (E2big, _) :: obs' => if in_err then collapse obs' true else None :: collapse obs' true
  | _ :: obs' => collapse obs' in_err
  end.

Fixpoint copt_eqb (a b : list (option (bytes * nat))) : bool :=
  match a, b with
  | [], [] => true
  | None :: a', None :: b' => copt_eqb a' b'
  | Some (x, i) :: a', Some (y, j) :: b' => bytes_eqb x y && Nat.eqb i j && copt_eqb a' b'
  | _, _ => false
  end.

(** a trailing error may or may not be reported before the stream ends *)
Definition drop_last_err (l : list (option (bytes * nat))) : list (option (bytes * nat)) :=
  match rev l with
  | None :: r => rev r
  | _ => l
  end.

Definition sched_ok (o1 o2 : list (item * nat)) : bool :=
  copt_eqb (drop_last_err (collapse o1 false)) (drop_last_err (collapse o2 false)).

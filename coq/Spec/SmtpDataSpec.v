(** C06 / C07 — what Qremote may put on the wire between the 354 reply and the
    terminating dot, and what the receiver must get out of it.  Short enough
    to read; no reference to the code.

    Readings fixed here (DESIGN.md, C06 / C07):
    - a message is a sequence of lines ended by CRLF, a lone CR or a lone LF;
      a last line without line end counts as a line ("final CRLF added if
      missing"); the empty message has no lines and stays empty;
    - the 998-octet limit of RFC 5321 4.5.3.1.6 is measured without the
      transparency dot. *)
From Qv Require Import Common.Bytes.

(* ------------------------------------------------------------------ the message as lines *)
Fixpoint split_lines (m : bytes) : list bytes :=
  match m with
  | [] => []
  | c :: r =>
      if N.eqb c CR then
        match r with
        | c2 :: r2 => if N.eqb c2 LF then [] :: split_lines r2 else [] :: split_lines r
        | [] => [[]]
        end
      else if N.eqb c LF then [] :: split_lines r
      else match split_lines r with
           | [] => [[c]]
           | l :: ls => (c :: l) :: ls
           end
  end.

Definition join_crlf (ls : list bytes) : bytes := concat (map (fun l => l ++ CRLF) ls).

(** CR, LF, CRLF -> CRLF; CRLF appended to an unterminated last line *)
Definition normalise (m : bytes) : bytes := join_crlf (split_lines m).

(** RFC 5321 4.5.2 transparency *)
Definition stuff_line (l : bytes) : bytes :=
  match l with
  | c :: _ => if N.eqb c DOT then DOT :: l else l
  | [] => []
  end.
Definition unstuff_line (l : bytes) : bytes :=
  match l with
  | c :: r => if N.eqb c DOT then r else l
  | [] => []
  end.
Definition stuff (ls : list bytes) : bytes := join_crlf (map stuff_line ls).

Definition TERMINATOR : bytes := [DOT; CR; LF].

(** C07, no recoding: everything sent after the 354 is exactly this *)
Definition plain_wire (m : bytes) : bytes := stuff (split_lines m) ++ TERMINATOR.

(* ------------------------------------------------------------------ C06: legal SMTP data *)
Definition line_clean (l : bytes) : Prop := Forall (fun c => c <> CR /\ c <> LF) l.
Definition seven_bit (l : bytes) : Prop := Forall (fun c => (c < 128)%N) l.
(** the length that counts against the limit: without the transparency dot *)
Definition counted_len (l : bytes) : nat := length (unstuff_line l).
Definition MAXLINE : nat := 998.

Definition legal_line (ext8 : bool) (l : bytes) : Prop :=
  line_clean l /\ l <> [DOT] /\ counted_len l <= MAXLINE /\ (ext8 = false -> seven_bit l).

(** [d] = the octets between the 354 and the terminating ".CRLF" *)
Definition legal_data (ext8 : bool) (d : bytes) : Prop :=
  exists ls, d = join_crlf ls /\ Forall (legal_line ext8) ls.

(** boolean versions, run on the C output *)
Definition line_clean_b (l : bytes) : bool := forallb (fun c => negb (N.eqb c CR) && negb (N.eqb c LF)) l.
Definition seven_bit_b (l : bytes) : bool := forallb (fun c => N.ltb c 128) l.
Definition legal_line_b (ext8 : bool) (l : bytes) : bool :=
  line_clean_b l && negb (bytes_eqb l [DOT]) && Nat.leb (counted_len l) MAXLINE && (ext8 || seven_bit_b l).

(** split at CRLF; [None] when the data does not end in CRLF (unless empty).  Bare CR / LF stay inside
    the lines and are caught by [line_clean_b]. *)
Fixpoint crlf_lines_aux (d : bytes) (cur : bytes) : option (list bytes) :=
  match d with
  | [] => match cur with [] => Some [] | _ => None end
  | c :: r =>
      match r with
      | c2 :: r2 =>
          if N.eqb c CR && N.eqb c2 LF then
            match crlf_lines_aux r2 [] with Some ls => Some (rev cur :: ls) | None => None end
          else crlf_lines_aux r (c :: cur)
      | [] => None
      end
  end.
Definition crlf_lines (d : bytes) : option (list bytes) := crlf_lines_aux d [].

Definition legal_data_b (ext8 : bool) (d : bytes) : bool :=
  match crlf_lines d with
  | Some ls => forallb (legal_line_b ext8) ls
  | None => false
  end.

(** the complete lines of an interrupted transfer (connection dropped by Qremote): everything up to the last CRLF *)
Fixpoint complete_part_aux (d : bytes) (cur acc : bytes) : bytes :=
  match d with
  | [] => rev acc
  | c :: r =>
      match r with
      | c2 :: r2 =>
          if N.eqb c CR && N.eqb c2 LF then complete_part_aux r2 [] (LF :: CR :: cur ++ acc)
          else complete_part_aux r (c :: cur) acc
      | [] => rev acc
      end
  end.

(** strip the terminator from the stream *)
Definition strip_terminator (s : bytes) : option bytes :=
  let n := length s in
  if Nat.ltb n 3 then None
  else if bytes_eqb (skipn (n - 3) s) TERMINATOR then Some (firstn (n - 3) s) else None.

(** observation of one run: the stream of octets written after the 354, and whether the transfer was completed *)
Definition spec_ok_C06 (ext8 : bool) (stream : bytes) (completed : bool) : bool :=
  if completed then
    match strip_terminator stream with
    | Some d => legal_data_b ext8 d
    | None => false
    end
  else legal_data_b ext8 (complete_part_aux stream [] []).

(* ------------------------------------------------------------------ quoted-printable, the receiver's side (RFC 2045 6.7) *)
Definition EQ : N := 61%N.
Definition hexval (c : N) : option N :=
  if N.leb 48 c && N.leb c 57 then Some (c - 48)%N
  else if N.leb 65 c && N.leb c 70 then Some (c - 55)%N
  else None.

(** literal representation allowed: printable ASCII except "=", and blank / tab *)
Definition qp_literal (c : N) : bool := (N.leb 33 c && N.leb c 126 && negb (N.eqb c EQ)) || N.eqb c SP || N.eqb c HT.

Definition QP_MAXLINE : nat := 76.

(** The receiver of a body that is declared quoted-printable, working on the wire octets [d] (dots
    still stuffed) from left to right.  [col] = octets of the current encoded line seen so far, not
    counting a transparency dot; [bol] = at the beginning of a wire line.
      - a dot at the beginning of a line is the transparency dot and is dropped;
      - "=" CRLF is a soft line break, "=" and two upper-case hex digits an octet, CRLF a line break;
      - every other octet must be a literal (printable ASCII except "=", blank, tab).
    Strict, [None] for anything an RFC 2045 encoder may not produce: a raw octet outside the literal
    set, a malformed "=" sequence, a bare CR or LF, blank or tab at the end of a line (a receiver
    would have to delete it as transport padding), an encoded line of more than 76 octets, data
    that does not end at a line end. *)
Fixpoint qp_decode (col : nat) (bol : bool) (d : bytes) : option bytes :=
  match d with
  | [] => if Nat.eqb col 0 then Some [] else None
  | c :: r =>
      if bol && N.eqb c DOT then
        match r with
        | [] => None
        | c2 :: _ => if N.eqb c2 CR then None else qp_decode col false r     (* ".CRLF" would end the data *)
        end
      else if N.eqb c CR then
        match r with
        | c2 :: r2 => if N.eqb c2 LF && Nat.leb col QP_MAXLINE then
                        match qp_decode 0 true r2 with Some o => Some (CR :: LF :: o) | None => None end
                      else None
        | [] => None
        end
      else if N.eqb c EQ then
        match r with
        | a :: r1 =>
            match r1 with
            | b :: r2 =>
                if N.eqb a CR && N.eqb b LF then
                  if Nat.leb (S col) QP_MAXLINE then qp_decode 0 true r2 else None
                else
                  match hexval a, hexval b with
                  | Some x, Some y =>
                      match qp_decode (col + 3) false r2 with Some o => Some ((16 * x + y)%N :: o) | None => None end
                  | _, _ => None
                  end
            | [] => None
            end
        | [] => None
        end
      else if qp_literal c then
        match r with
        | c2 :: _ =>
            if (N.eqb c SP || N.eqb c HT) && N.eqb c2 CR then None
            else match qp_decode (S col) false r with Some o => Some (c :: o) | None => None end
        | [] => None
        end
      else None
  end.

(** C07 for a body that was recoded: the wire octets [wire] (complete lines, dots still stuffed)
    decode to the normalised original, up to the CRLF that ends the last line ("a final CRLF added
    if missing": when the original ends without line end the receiver may get it with or without) *)
Definition same_upto_final_crlf (d n : bytes) : Prop := d = n \/ d ++ CRLF = n.
Definition same_upto_final_crlf_b (d n : bytes) : bool := bytes_eqb d n || bytes_eqb (d ++ CRLF) n.

Definition qp_roundtrip (orig wire : bytes) : Prop :=
  exists d, qp_decode 0 true wire = Some d /\ same_upto_final_crlf d (normalise orig).

(* ------------------------------------------------------------------ when must a message be recoded *)
(** octets that cannot go into a 7-bit transfer as they are: NUL and everything above 127
    (Qremote treats NUL like an 8-bit octet) *)
Definition octet_8bit (c : N) : bool := N.eqb c 0 || N.leb 128 c.
Definition has_8bit (m : bytes) : bool := existsb octet_8bit m.
Definition has_long_line (m : bytes) : bool := existsb (fun l => Nat.ltb MAXLINE (length l)) (split_lines m).
(** the message cannot be sent as it is: 8-bit content without 8BITMIME, or a line over the limit *)
Definition must_recode (ext8 : bool) (m : bytes) : bool := (negb ext8 && has_8bit m) || has_long_line m.

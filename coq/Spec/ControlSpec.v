(** C16 — what control files and IP/domain lists mean.  The mathematical objects
    (no reference to the models, no generated constants): a file is a byte
    list, its meaning is a list of entries / a set of networks / a number. *)
From Qv Require Import Common.Bytes.

(** ---------------------------------------------------------------- text helpers *)
Definition is_blank (b : N) : bool := N.eqb b 32 || N.eqb b 9.
Definition is_nil {A} (l : list A) : bool := match l with [] => true | _ => false end.

(** split at every byte satisfying [sep] (the separators are dropped); always at least one piece *)
Fixpoint split_on (sep : N -> bool) (l : bytes) : list bytes :=
  match l with
  | [] => [[]]
  | b :: l' =>
      if sep b then [] :: split_on sep l'
      else match split_on sep l' with
           | x :: xs => (b :: x) :: xs
           | [] => [[b]]
           end
  end.

Fixpoint drop_blanks (l : bytes) : bytes :=
  match l with
  | b :: l' => if is_blank b then drop_blanks l' else l
  | [] => []
  end.

(** remove trailing blanks and tabs *)
Definition strip_trailing (l : bytes) : bytes := rev (drop_blanks (rev l)).

Definition lower (l : bytes) : bytes := map to_lower l.

(** ---------------------------------------------------------------- rcpthosts-style lists (finddomain) *)
Definition is_comment_line (l : bytes) : bool := match l with c :: _ => N.eqb c 35 | [] => false end.
Definition dot_led (e : bytes) : bool := match e with c :: _ => N.eqb c 46 | [] => false end.

(** the entries of a domain list: its lines (LF separated) that do not start
    with '#', without trailing blanks/tabs, empty ones dropped *)
Definition fd_entries (buf : bytes) : list bytes :=
  filter (fun e => negb (is_nil e))
    (map strip_trailing
       (filter (fun l => negb (is_comment_line l)) (split_on (N.eqb 10) buf))).

(** [name] ends with [e], compared without regard to ASCII case *)
Definition ci_suffix (e name : bytes) : Prop :=
  exists pre rest, name = pre ++ rest /\ lower rest = lower e.

(** an entry matches a name when it equals it case-insensitively, or, for an
    entry starting with a dot, when the name is longer and ends with the entry *)
Definition entry_matches (e name : bytes) : Prop :=
  if dot_led e then length e < length name /\ ci_suffix e name
  else lower name = lower e.

Definition entry_matchb (name e : bytes) : bool :=
  if dot_led e
  then Nat.ltb (length e) (length name)
       && bytes_eqb (lower (skipn (length name - length e) name)) (lower e)
  else bytes_eqb (lower name) (lower e).

(** lists loaded with loadlistfd and matched with lib/match.c:matchdomain: the same,
    except that a dot-led entry also matches the name that equals it *)
Definition expr_matches (e name : bytes) : Prop :=
  if dot_led e then ci_suffix e name else lower name = lower e.

Definition expr_matchb (name e : bytes) : bool :=
  if dot_led e
  then Nat.leb (length e) (length name)
       && bytes_eqb (lower (skipn (length name - length e) name)) (lower e)
  else bytes_eqb (lower name) (lower e).

Definition fd_spec (buf name : bytes) : bool := existsb (entry_matchb name) (fd_entries buf).

(** ---------------------------------------------------------------- networks *)
(** value of a byte string read as a big-endian (network order) number *)
Definition be_val (l : bytes) : N := fold_left (fun a b => (a * 256 + b)%N) l 0%N.

Definition bytes_ok (l : bytes) : Prop := Forall (fun b => (b < 256)%N) l.
Definition bytes_okb (l : bytes) : bool := forallb (fun b => N.ltb b 256) l.

(** [a] and [n] (addresses of [8 * length] bits) agree on their top [m] bits *)
Definition same_prefix (bits : N) (a n : bytes) (m : N) : Prop :=
  (be_val a / 2 ^ (bits - m) = be_val n / 2 ^ (bits - m))%N.
Definition same_prefixb (bits : N) (a n : bytes) (m : N) : bool :=
  N.eqb (be_val a / 2 ^ (bits - m)) (be_val n / 2 ^ (bits - m)).

(** the client [ip] (16 bytes; IPv4 clients are IPv4-mapped, the address is the
    last 4 bytes) lies in the network [net]/[m] *)
Definition in_net4 (ip net : bytes) (m : N) : Prop := same_prefix 32 (sub ip 12 4) (firstn 4 net) m.
Definition in_net6 (ip net : bytes) (m : N) : Prop := same_prefix 128 ip (firstn 16 net) m.
Definition in_net4b (ip net : bytes) (m : N) : bool := same_prefixb 32 (sub ip 12 4) (firstn 4 net) m.
Definition in_net6b (ip net : bytes) (m : N) : bool := same_prefixb 128 ip (firstn 16 net) m.

(** binary IP list: records of [iplen] address bytes followed by one prefix-length byte *)
Definition rec_mask (iplen : nat) (r : bytes) : N := nth iplen r 0%N.
Definition rec_valid (iplen : nat) (r : bytes) : bool :=
  N.leb 8 (rec_mask iplen r) && N.leb (rec_mask iplen r) (N.of_nat (8 * iplen)).

(** -1: malformed, 1: client listed, 0: not listed *)
Definition ipbl_spec (iplen : nat) (innet : bytes -> bytes -> N -> bool) (ip : bytes) (recs : list bytes) : Z :=
  if forallb (rec_valid iplen) recs then
    if existsb (fun r => innet ip r (rec_mask iplen r)) recs then 1%Z else 0%Z
  else (-1)%Z.

(** cut a file into records of [n] bytes (used by the checker on C outputs) *)
Fixpoint chunks (fuel n : nat) (l : bytes) : list bytes :=
  match fuel with
  | O => []
  | S f => match l with
           | [] => []
           | _ => firstn n l :: chunks f n (skipn n l)
           end
  end.

Definition ipbl_file_spec (iplen : nat) (innet : bytes -> bytes -> N -> bool) (ip buf : bytes) : Z :=
  if Nat.eqb (length buf mod (iplen + 1)) 0
  then ipbl_spec iplen innet ip (chunks (length buf) (iplen + 1) buf)
  else (-1)%Z.

(** ---------------------------------------------------------------- list-type control files (loadlistfd) *)
(** lines end at LF; a NUL byte ends a line as well (entries are C strings) *)
Definition is_eol (b : N) : bool := N.eqb b 10 || N.eqb b 0.

(** the entry on the rest [l] of a line whose previous byte is [prev]:
    - a '#' that is not preceded by a backslash starts a comment: the entry ends there;
    - a blank or tab ends the entry and only blanks/tabs may follow up to the end of the
      line (not even a comment): otherwise the file is rejected ([None]);
    - any other byte belongs to the entry (a backslash in front of '#' is kept). *)
Fixpoint line_tail (prev : N) (l : bytes) : option bytes :=
  match l with
  | [] => Some []
  | b :: r =>
      if N.eqb b 35 && negb (N.eqb prev 92) then Some []
      else if is_blank b then (if forallb is_blank r then Some [] else None)
      else option_map (cons b) (line_tail b r)
  end.
Definition line_entry (l : bytes) : option bytes := line_tail 0 l.

Fixpoint all_some {A} (l : list (option A)) : option (list A) :=
  match l with
  | [] => Some []
  | None :: _ => None
  | Some x :: r => option_map (cons x) (all_some r)
  end.

(** the meaning of a list file: [None] = rejected (EINVAL), else its non-empty entries in order *)
Definition list_spec (content : bytes) : option (list bytes) :=
  option_map (filter (fun e => negb (is_nil e)))
             (all_some (map line_entry (split_on is_eol content))).

(** ---------------------------------------------------------------- lloadfilefd in general, one-line files *)
(** the same with the blank rule switched on ([strip = true], striptab bit 2: exactly
    [line_tail]) or off ([strip = false]: blanks and tabs are ordinary bytes; used for
    one-line files such as control/me and for tlsserverciphers) *)
Fixpoint line_tail_m (strip : bool) (prev : N) (l : bytes) : option bytes :=
  match l with
  | [] => Some []
  | b :: r =>
      if N.eqb b 35 && negb (N.eqb prev 92) then Some []
      else if strip && is_blank b then (if forallb is_blank r then Some [] else None)
      else option_map (cons b) (line_tail_m strip b r)
  end.

Definition list_spec_m (strip : bool) (content : bytes) : option (list bytes) :=
  option_map (filter (fun e => negb (is_nil e)))
             (all_some (map (line_tail_m strip 0) (split_on is_eol content))).

(** a buffer of C strings: the entries each followed by one NUL ... *)
Definition cat (es : list bytes) : bytes := concat (map (fun e => e ++ [0%N]) es).
(** ... and the non-empty NUL-separated strings found in a buffer *)
Definition is_nul (b : N) : bool := N.eqb b 0.
Definition pieces (buf : bytes) : list bytes := filter (fun e => negb (is_nil e)) (split_on is_nul buf).

(** a line without its comment (from the first '#' not preceded by a backslash), blanks kept *)
Fixpoint cut_comment (prev : N) (l : bytes) : bytes :=
  match l with
  | [] => []
  | b :: r => if N.eqb b 35 && negb (N.eqb prev 92) then [] else b :: cut_comment b r
  end.

(** the non-empty lines of a file after removal of comments (blanks kept, nothing rejected) *)
Definition plain_lines (content : bytes) : list bytes :=
  filter (fun e => negb (is_nil e)) (map (cut_comment 0) (split_on is_eol content)).

(** a one-line file (loadonelinerfd): no line at all = "not there" (ENOENT), exactly one
    non-empty non-comment line = that line (its blanks are kept), a second one = error (EINVAL) *)
Inductive oneline := OneNone | OneLine (l : bytes) | OneError.
Definition oneliner_spec (content : bytes) : oneline :=
  match plain_lines content with
  | [] => OneNone
  | [l] => OneLine l
  | _ => OneError
  end.

(** ---------------------------------------------------------------- numeric control files (loadintfd) *)
Definition dec_value (s : bytes) : N := fold_left (fun a b => (a * 10 + (b - 48))%N) s 0%N.

(** [None] = rejected; no entry at all = the default; exactly one entry that is a
    decimal numeral not above ULONG_MAX (2^64 - 1) = its value *)
Definition int_spec (content : bytes) (def : N) : option N :=
  match list_spec content with
  | None => None
  | Some [] => Some def
  | Some [e] => if forallb is_digit e && N.leb (dec_value e) 18446744073709551615 then Some (dec_value e) else None
  | Some _ => None
  end.

(** C12 — what the documentation (doc/man/filterconf.5, the comments of smtp_rcpt and getfile.c) says the answer
    to RCPT TO is, as a function of the filter results and of the three configuration levels.
    Nothing here refers to the model of the C code except the file loader [parse_conf] (used by the checker that
    runs on C outputs to turn the case's files into entry lists) and the enum [fres]. *)
From Qv Require Import Common.Bytes Gen.GenFilters Model.Filters.
Local Open Scope bool_scope.

(* ------------------------------------------------------------------------------------------------ *)
(** * What one filterconf level says about a setting

    "If there is a boolean setting foo and there is a line containing just foo, foo will be enabled.  Integer
    settings are key=value.  Neither characters between the key, the '=' and the value nor characters behind the
    value are permitted.  foo as a boolean is the same as foo=1; no foo line in the file is the same like foo=0.
    There is a special value -1 which means that foo will be disabled and the domain config will not be used." *)

Inductive says :=
| Unset            (* no line about the key, or key=0 *)
| On (v : Z)       (* enabled with value v > 0 *)
| Off              (* key=-1 (any negative value): disabled, do not inherit *)
| Bad.             (* the value is not an integer in the documented syntax (or does not fit a long) *)

Fixpoint dec_value (l : bytes) (acc : Z) : Z :=
  match l with
  | c :: r => dec_value r (acc * 10 + (Z.of_N c - 48))%Z
  | [] => acc
  end.

(** -?[0-9]+ that fits a C long *)
Definition doc_integer (v : bytes) : option Z :=
  let '(neg, d) := match v with c :: r => if N.eqb c 45 then (true, r) else (false, v) | [] => (false, v) end in
  match d with
  | [] => None
  | _ => if forallb is_digit d then
           let z := if neg then (- dec_value d 0)%Z else dec_value d 0 in
           if (z <=? 9223372036854775807)%Z && (-9223372036854775808 <=? z)%Z then Some z else None
         else None
  end.

Definition says_of_value (z : Z) : says := if (0 <? z)%Z then On z else if (z <? 0)%Z then Off else Unset.

(** [None]: the line is not about [key] *)
Definition entry_says (key e : bytes) : option says :=
  if bytes_eqb e key then Some (On 1)
  else if bytes_eqb (firstn (length key + 1) e) (key ++ [61%N]) then
    Some (match doc_integer (skipn (length key + 1) e) with Some z => says_of_value z | None => Bad end)
  else None.

(** the first line about the key decides *)
Fixpoint level_says (cfg : list bytes) (key : bytes) : says :=
  match cfg with
  | [] => Unset
  | e :: r => match entry_says key e with Some s => s | None => level_says r key end
  end.

(** where a value comes from *)
Inductive origin := FromUser | FromDomain | FromGlobal.
Definition origin_code (o : origin) : Z := match o with FromUser => 1 | FromDomain => 2 | FromGlobal => 4 end.

(** "If the setting is not configured in the user directory Qsmtpd will take the value from the domain directory.
    If there is no domain setting also the global one is taken if the setting is marked global."
    [None]: a level that had to be consulted is [Bad] (nothing documented). *)
Definition doc_setting (global : bool) (u d g : says) : option (Z * origin) :=
  match u with
  | On v => Some (v, FromUser) | Off => Some (0%Z, FromUser) | Bad => None
  | Unset =>
      match d with
      | On v => Some (v, FromDomain) | Off => Some (0%Z, FromDomain) | Bad => None
      | Unset =>
          if global then
            match g with On v => Some (v, FromGlobal) | Off | Unset => Some (0%Z, FromGlobal) | Bad => None end
          else Some (0%Z, FromDomain)
      end
  end.

(* ------------------------------------------------------------------------------------------------ *)
(** * The documented combination of the filter results *)

(** a result that does not end the evaluation *)
Definition soft (r : fres) : Prop := r = FPassed \/ r = FDeniedTemp \/ r = FError.
(** a temporary failure (an error inside a filter counts as one) *)
Definition tempish (r : fres) : Prop := r = FDeniedTemp \/ r = FError.

Inductive doc_outcome :=
| DAccept            (* 2xx, recipient accepted *)
| DRejectByFilter    (* the filter has sent its own 5xx; nothing else is sent *)
| DPolicy5           (* 550 5.7.1 policy rejection *)
| DNoUser            (* 550 5.1.1 no such user *)
| DTemp4.            (* 450 4.7.0 temporary policy rejection *)

Definition unspecific_outcome (nonexist : bool) : doc_outcome := if nonexist then DNoUser else DPolicy5.

(** [frs]: the results of the filters in the order of rcpt_cbs[] (what each would return).
    [called]: how many of them are consulted. *)
Inductive documented (failhard nonexist : bool) (frs : list fres) : doc_outcome -> nat -> Prop :=
| D_white pre post : frs = pre ++ FWhite :: post -> Forall soft pre ->
    documented failhard nonexist frs DAccept (S (length pre))
| D_msg pre post : frs = pre ++ FDeniedMsg :: post -> Forall soft pre ->
    documented failhard nonexist frs DRejectByFilter (S (length pre))
| D_unspec pre post : frs = pre ++ FDeniedUnspec :: post -> Forall soft pre ->
    documented failhard nonexist frs (unspecific_outcome nonexist) (S (length pre))
| D_nouser pre post : frs = pre ++ FDeniedNoUser :: post -> Forall soft pre ->
    documented failhard nonexist frs DNoUser (S (length pre))
| D_temp : Forall soft frs -> Exists tempish frs ->
    documented failhard nonexist frs (if failhard then unspecific_outcome nonexist else DTemp4) (length frs)
| D_pass : Forall (eq FPassed) frs ->
    documented failhard nonexist frs DAccept (length frs).

(** the same as a function *)
Fixpoint doc_combine (failhard nonexist : bool) (frs : list fres) (seen_temp : bool) (n : nat) : doc_outcome * nat :=
  match frs with
  | [] => ((if seen_temp then (if failhard then unspecific_outcome nonexist else DTemp4) else DAccept), n)
  | r :: rest =>
      match r with
      | FWhite => (DAccept, S n)
      | FDeniedMsg => (DRejectByFilter, S n)
      | FDeniedUnspec => (unspecific_outcome nonexist, S n)
      | FDeniedNoUser => (DNoUser, S n)
      | FPassed => doc_combine failhard nonexist rest seen_temp (S n)
      | FDeniedTemp | FError => doc_combine failhard nonexist rest true (S n)
      end
  end.

(* ------------------------------------------------------------------------------------------------ *)
(** * The observation and the checker that runs on C outputs *)

(** "NNN N.N.N": the first nine octets of a reply *)
Definition head9 (t : bytes) : bytes := firstn 9 t.

Definition b_nth (l : bytes) (i : nat) : N := nth i l 0%N.

Definition NOUSER_HEAD : bytes := [53; 53; 48; 32; 53; 46; 49; 46; 49]%N.   (* "550 5.1.1" *)

(** does a reply (its first nine octets) with the recipient flag fit the documented outcome? *)
Definition reply_fits (o : doc_outcome) (replies : list bytes) (ok : bool) : bool :=
  match replies with
  | [r] =>
      (Nat.eqb (length r) 9) &&
      match o with
      | DAccept => ok && N.eqb (b_nth r 0) 50 && N.eqb (b_nth r 4) 50                   (* 2xx 2.x.x *)
      | DRejectByFilter => negb ok && N.eqb (b_nth r 0) 53                               (* 5xx, the filter's own *)
      | DPolicy5 => negb ok && N.eqb (b_nth r 0) 53 && N.eqb (b_nth r 4) 53 && negb (bytes_eqb r NOUSER_HEAD)
      | DNoUser => negb ok && bytes_eqb r NOUSER_HEAD
      | DTemp4 => negb ok && N.eqb (b_nth r 0) 52 && N.eqb (b_nth r 4) 52               (* 4xx 4.x.x *)
      end
  | _ => false
  end.

Definition is_accept (o : doc_outcome) : bool := match o with DAccept => true | _ => false end.

(** what smtp_rcpt itself sends fits the outcome: nothing exactly when the deciding filter has sent its own reply,
    otherwise one line with the documented code *)
Definition sends_fitting (o : doc_outcome) (r : rcpt_reply) (ok : bool) : Prop :=
  match r with
  | RNone => o = DRejectByFilter
  | RLine t => o <> DRejectByFilter /\ reply_fits o [head9 t] ok = true
  end.

Inductive observation :=
| OErr                                                                  (* a configuration file was refused *)
| ODone (replies : list bytes) (ok : bool) (trace : list nat) (p1v p1t p2v p2t : Z).

Inductive verdict := VPre | VOk | VBad.

Definition setting_on (s : option (Z * origin)) : option bool :=
  match s with Some (v, _) => Some (negb (Z.eqb v 0)) | None => None end.

Definition probe_fits (s : option (Z * origin)) (v t : Z) : bool :=
  match s with
  | None => true                                                        (* nothing documented *)
  | Some (dv, o) => Z.eqb v dv && (if (0 <? dv)%Z then Z.eqb t (origin_code o) else true)
  end.

(** "If there is no domain setting also the global one is taken if the setting is marked global": for a setting of the
    man page's KEYS section, what the filter that reads it gets (getsettingglobal()'s answer when the code reads it that
    way, else getsetting()'s) must be the documented lookup with global = the man page's mark.
    KEY_TABLE: (setting, the code reads it globally, the man page marks it global). *)
Fixpoint key_lookup (k : bytes) (t : list (bytes * bool * bool)) : option (bool * bool) :=
  match t with
  | [] => None
  | (k', cg, dg) :: r => if bytes_eqb k k' then Some (cg, dg) else key_lookup k r
  end.

Definition filter_view_fits (u d g : says) (key : bytes) (p1v p1t p2v p2t : Z) : bool :=
  match key_lookup key KEY_TABLE with
  | None => true
  | Some (cg, dg) => probe_fits (doc_setting dg u d g) (if cg then p2v else p1v) (if cg then p2t else p1t)
  end.

Fixpoint nat_list_eqb (a b : list nat) : bool :=
  match a, b with
  | [], [] => true
  | x :: a', y :: b' => Nat.eqb x y && nat_list_eqb a' b'
  | _, _ => false
  end.

(** The space-bug flag is sticky for the mail transaction: MAIL FROM records whether its own line had blanks between
    ':' and '<', every RCPT TO with such blanks sets it, and a clean RCPT TO line never clears it.  So the recipient's
    smtp_space_bug setting applies when the flag was set before OR this command has blanks. *)
Definition doc_spacebug (s : session) : bool := s_prebug s || negb (N.eqb (s_spaces s) 0).

(** the checker: case fields -> observation made on the C -> verdict.
    The result of a filter the case runs for real (stage 2) is taken from the model of that filter; what the checker
    demands of it is only the discipline of the interface: a filter that ends the evaluation with "denied, I have
    answered myself" must have sent one 5xx reply ([reply_fits DRejectByFilter]). *)
Definition spec_ok_C12 (outcomes : bytes) (umode : N) (ufile : bytes) (dmode : N) (dfile : bytes)
                       (gmode : N) (gfile : bytes) (key : bytes) (sess : bytes) (obs : observation) : verdict :=
  match decode_outcomes outcomes, decode_session sess, load_level gmode gfile, load_configs umode ufile dmode dfile with
  | Some slots, Some s, Some gc, Some (uc, dc) =>
      if negb (Nat.eqb (length slots) NFILTERS) then VPre else
      match all_results (doc_spacebug s) slots s uc dc gc with
      | None => VPre
      | Some results =>
      let fh := setting_on (doc_setting false (level_says uc KEY_FAIL_HARD) (level_says dc KEY_FAIL_HARD) Unset) in
      let ne := setting_on (doc_setting false (level_says uc KEY_NONEXIST) (level_says dc KEY_NONEXIST) Unset) in
      match fh, ne with
      | Some failhard, Some nonexist =>
          match obs with
          | OErr => VBad
          | ODone replies ok trace p1v p1t p2v p2t =>
              let frs := map fst (map (fun id => nth id results passed) RCPT_CBS) in
              let '(o, n) := doc_combine failhard nonexist frs false 0 in
              if reply_fits o replies ok
                 && nat_list_eqb trace (firstn n RCPT_CBS)
                 && probe_fits (doc_setting false (level_says uc key) (level_says dc key) (level_says gc key)) p1v p1t
                 && probe_fits (doc_setting true (level_says uc key) (level_says dc key) (level_says gc key)) p2v p2t
                 && filter_view_fits (level_says uc key) (level_says dc key) (level_says gc key) key p1v p1t p2v p2t
              then VOk else VBad
          end
      | _, _ => VPre
      end
      end
  | _, _, _, _ => VPre
  end.

(** the observation the model's result stands for (what the harness prints for it) *)
Definition observe (r : case_result) : option observation :=
  match r with
  | CGlobalErr | CCtrlErr => Some OErr
  | CBadCase => None
  | CDone res trace fmsgs p1 p2 =>
      Some (ODone (map head9 fmsgs ++ match rr_reply res with RNone => [] | RLine t => [head9 t] end)
                  (rr_ok res) trace (setting_value p1) (setting_type p1) (setting_value p2) (setting_type p2))
  end.

(** Finding F-C12-3, the class of cases: the real cb_spf is in the table, the SPF status is "temporary error", an
    spfpolicy is in force and fail_hard_on_temp is not: cb_spf then answers 451 itself and reports "denied with
    message", which ends the evaluation, so a permanent denial of a later filter cannot win and the reply the client
    gets for the "denied" state is a 4xx. *)
Definition spf_temp_class (slots : list slot) (s : session) (uc dc gc : list bytes) : bool :=
  match nth ID_SPF slots (Standin FPassed) with
  | RealFilter =>
      N.eqb (s_spf s) SPF_TEMPERROR
      && (0 <? setting_value (getsettingglobal uc dc gc KEY_SPFPOLICY))%Z
      && (setting_value (getsetting uc dc gc KEY_SPF_FAIL_HARD) <=? 0)%Z
  | Standin _ => false
  end.

(** the class as a predicate on the case fields ([false] for cases that are refused anyway) *)
Definition in_spf_temp_class (outcomes : bytes) (umode : N) (ufile : bytes) (dmode : N) (dfile : bytes)
                             (gmode : N) (gfile : bytes) (sess : bytes) : bool :=
  match decode_outcomes outcomes, decode_session sess, load_level gmode gfile, load_configs umode ufile dmode dfile with
  | Some slots, Some s, Some gc, Some (uc, dc) => spf_temp_class slots s uc dc gc
  | _, _, _, _ => false
  end.

import os, sys; sys.path.insert(0, os.path.join(os.path.dirname(os.path.abspath(__file__)), 'tools')); import runlib as R
R.translate(); R.coq_project()
t=sys.argv[1:] or ['Props/Properties_C01.vo','Props/Properties_C02.vo','Props/Properties_C03.vo','Props/Properties_C08.vo','Props/Properties_C15.vo','Props/Properties_C17.vo']
ok,out=R.coq_make(t,timeout=2400)
print(ok)
ls=out.split('\n')
for i,l in enumerate(ls):
    if l.startswith('File ') and i+1<len(ls) and 'Error' in ls[i+1]:
        print('\n'.join(ls[i:i+12])); print('---')

/* qsmtpd/auth.c with the checkpassword backend and lib/base64.c, unchanged (needed by the command table of qsmtpd.c). */
#define smtp_authstring real_smtp_authstring	/* the EHLO cases decide what the AUTH line lists */
#include "qsmtpd/auth.c"
#undef smtp_authstring
#include "qsmtpd/backends/auth_chkpw/qsauth_backend_cp.c"
#include "lib/base64.c"

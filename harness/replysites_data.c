/* qsmtpd/data.c, unchanged (smtp_data, smtp_bdat and their error replies). */
#include "qsmtpd/data.c"

/* Real translation units of the `replysites` engine, unchanged: the four filters that embed foreign text in
 * their reply, and qsmtpd/antispam.c for check_rbl() (its tarpit() is replaced: it sleeps). */
#include "qsmtpd/filters/dnsbl.c"
#include "qsmtpd/filters/namebl.c"
#include "qsmtpd/filters/nomail.c"
#include "qsmtpd/filters/spf.c"
#define tarpit real_tarpit
#include "qsmtpd/antispam.c"
#undef tarpit

/* C side of the `rfilters` engine (property C12, stage 3): ONE real filter function of rcpt_cbs[] per case, called
 * directly with a real struct userconf on a generated directory tree, with scripted collaborators (DNS, network).
 *
 * Real code (rfilters_real.c): all sixteen qsmtpd/filters/<x>.c, rcpt_filters.c, getfile.c, vpop.c (userconf_*),
 * addrsyntax.c (checkaddr), antispam.c (lookupipbl, check_rbl), lib/control.c, mmap.c, match.c, dns_helpers.c, fmt.c.
 * Stand-ins (this file): ask_dnsa / dnstxt (script), check_host, netnwrite / net_writen (capture), log_*, err_control*.
 *
 * case:   fd <id> <misc> <mailfrom> <helo> <ip> <rcpts> <dns> <mx> <file>*
 *   id        canonical (alphabetical) id of the filter to call, see cb_table
 *   misc      byte 0: bit 0 the user directory exists, bit 1 xmitstat.ipv4conn, bit 2 esmtp, bit 3 TLS, bit 4 authenticated,
 *             bit 5 frommx is split into one struct ips per address; byte 1: xmitstat.helostatus; byte 2: xmitstat.check2822;
 *             byte 3: xmitstat.fromdomain (0, 1, 2 or 0xfe = DNS_ERROR_TEMP, 0xfd = DNS_ERROR_PERM); byte 4: what *t holds
 *             on entry, i.e. what the previous filter of rcpt_cbs[] left there (0..4, or 0xea = -EINVAL after a
 *             failed list load); missing bytes are 0
 *   mailfrom  envelope sender ("-" = bounce)
 *   helo      HELO argument (xmitstat.helostr; the reverse lookup is empty)
 *   ip        xmitstat.sremoteip, 16 bytes
 *   rcpts     earlier recipients of the transaction, each followed by LF ("-" = none); this recipient is postmaster@example.org
 *   dns       script for ask_dnsa(): one byte per call: 0 = no record, 1..0xf0 = that many addresses, 0xfd = permanent
 *             error, 0xfe = temporary error, 0xff = local error (errno = ENOMEM); exhausted = no record;
 *             dnstxt() always fails
 *   mx        xmitstat.frommx: k * 16 bytes ("-" = NULL)
 *   file      level byte (0 user, 1 domain, 2 global) + length of name + name + content; names [a-z0-9_]{1,32};
 *             a later field for the same (level, name) is ignored; level 0 files need misc bit 0
 * result: r=<enum filter_result + 1> t=<*t, only when the mail is not passed> reply=<hex of what was sent>|- c2822=<n> dnscalls=<n>
 */
#include "hcommon.h"
#include <unistd.h>
#include <dirent.h>
#include <sys/stat.h>
#include <syslog.h>
#include <arpa/inet.h>

#include <qsmtpd/qsmtpd.h>
#include <qsmtpd/userconf.h>
#include <qsmtpd/userfilters.h>
#include <qsmtpd/antispam.h>
#include <control.h>
#include <netio.h>
#include <qdns.h>

struct xmitstat xmitstat;
struct recip *thisrecip;
struct rcpt_list head;
const char **globalconf;

/* the log text is not observed, but it is read the way the real log_writen() reads it, so that a bad pointer in a
 * message array is noticed (ASan report or SIGSEGV -> CRASH) */
static volatile size_t log_sink;
void log_write(int p, const char *s) { (void)p; log_sink += strlen(s); }
void log_writen(int p, const char **s) { (void)p; for (int i = 0; s[i]; i++) log_sink += strlen(s[i]); }
int err_control(const char *a) { (void)a; return 0; }
int err_control2(const char *a, const char *b) { (void)a; (void)b; return 0; }
int check_host(const char *a) { (void)a; abort(); }
int data_pending(SSL *s) { (void)s; return 1; }
void dieerror(int e) { (void)e; abort(); }

/* ---------------------------------------------------------------- reply capture */
static char sent[8192]; static size_t n_sent;
static void capture(const char *s, size_t l)
{
	if (n_sent + l > sizeof(sent)) l = sizeof(sent) - n_sent;
	memcpy(sent + n_sent, s, l); n_sent += l;
}
int netnwrite(const char *s, const size_t l) { capture(s, l); return 0; }
int net_writen(const char *const *s)
{
	for (int i = 0; s[i]; i++) capture(s[i], strlen(s[i]));
	capture("\r\n", 2);
	return 0;
}

/* ---------------------------------------------------------------- DNS script */
static const unsigned char *dns_script; static size_t dns_len, dns_pos; static int dns_calls;
int ask_dnsa(const char *name, struct in6_addr **res)
{
	(void)name;
	dns_calls++;
	if (res) *res = NULL;
	if (dns_pos >= dns_len) return 0;
	unsigned char b = dns_script[dns_pos++];
	if (b == 0xff) { errno = ENOMEM; return DNS_ERROR_LOCAL; }
	if (b == 0xfe) return DNS_ERROR_TEMP;
	if (b == 0xfd) return DNS_ERROR_PERM;
	if (b > 0xf0) return 0;
	return b;
}
int dnstxt(char **out, const char *host) { (void)host; *out = NULL; errno = ENOENT; return -1; }

/* ---------------------------------------------------------------- the filters */
#define DECL(n) enum filter_result cb_##n(const struct userconf *, const char **, enum config_domain *);
DECL(badcc) DECL(badmailfrom) DECL(boolean) DECL(check2822) DECL(dnsbl) DECL(forceesmtp) DECL(fromdomain) DECL(helo)
DECL(ipbl) DECL(namebl) DECL(nomail) DECL(smtpbugs) DECL(soberg) DECL(spf) DECL(usersize) DECL(wildcardns)
static rcpt_cb cb_table[16] = { cb_badcc, cb_badmailfrom, cb_boolean, cb_check2822, cb_dnsbl, cb_forceesmtp, cb_fromdomain,
	cb_helo, cb_ipbl, cb_namebl, cb_nomail, cb_smtpbugs, cb_soberg, cb_spf, cb_usersize, cb_wildcardns };

/* ---------------------------------------------------------------- directory tree */
static char base[64];
static char created[64][48]; static int n_created;
static const char *lvldir[3] = { "dom/user", "dom", "control" };

static int name_ok(const unsigned char *p, size_t l)
{
	if (l < 1 || l > 32) return 0;
	for (size_t i = 0; i < l; i++)
		if (!((p[i] >= 'a' && p[i] <= 'z') || (p[i] >= '0' && p[i] <= '9') || p[i] == '_')) return 0;
	return 1;
}

/* empties the three directories completely: a crashed child of an earlier run may have left files under the same pid */
static void rm_tree(void)
{
	for (int k = 0; k < 3; k++) {
		DIR *d = opendir(lvldir[k]);
		if (!d) continue;
		struct dirent *e;
		while ((e = readdir(d)) != NULL) {
			char path[400];
			if (e->d_name[0] == '.' && (!e->d_name[1] || (e->d_name[1] == '.' && !e->d_name[2]))) continue;
			snprintf(path, sizeof(path), "%s/%s", lvldir[k], e->d_name);
			unlink(path);
		}
		closedir(d);
	}
	n_created = 0;
	rmdir("dom/user"); rmdir("dom"); rmdir("control");
}

static int open_fds(void)
{
	int n = 0;
	for (int fd = 0; fd < 256; fd++)
		if (fcntl(fd, F_GETFD) != -1) n++;
	return n;
}

static void run_case(int nf, struct field *f)
{
	if (nf < 9 || f[0].len != 1 || f[0].p[0] != 0xfd || f[1].len != 1 || f[1].p[0] > 15 || f[5].len != 16
			|| (f[8].len % 16) != 0 || sizeof(long) != 8) {
		out_str("BADCASE");
		return;
	}
	unsigned char misc[5] = { 0, 0, 0, 0, 0 };
	memcpy(misc, f[2].p, f[2].len < 5 ? f[2].len : 5);
	if (misc[4] > 4 && misc[4] != 0xea) { out_str("BADCASE"); return; }
	const int userdir = misc[0] & 1;
	if (memchr(f[3].p, 0, f[3].len) || memchr(f[4].p, 0, f[4].len) || memchr(f[6].p, 0, f[6].len) || f[4].len == 0) {
		out_str("BADCASE");
		return;
	}
	for (int i = 9; i < nf; i++) {
		if (f[i].len < 2 || f[i].p[0] > 2 || f[i].len < 2u + f[i].p[1] || !name_ok(f[i].p + 2, f[i].p[1])
				|| (f[i].p[0] == 0 && !userdir) || nf - 9 > 60) {
			out_str("BADCASE");
			return;
		}
	}

	snprintf(base, sizeof(base), "/tmp/qv-c12r-%ld", (long)getpid());
	mkdir(base, 0755);
	if (chdir(base) != 0) abort();
	rm_tree();
	mkdir("control", 0755); mkdir("dom", 0755);
	if (userdir) mkdir("dom/user", 0755);
	for (int i = 9; i < nf; i++) {
		char path[48];
		snprintf(path, sizeof(path), "%s/%.*s", lvldir[f[i].p[0]], (int)f[i].p[1], f[i].p + 2);
		int fd = open(path, O_WRONLY | O_CREAT | O_EXCL, 0644);
		if (fd < 0) continue;		/* an earlier field has created it */
		const unsigned char *c = f[i].p + 2 + f[i].p[1]; size_t l = f[i].len - 2 - f[i].p[1], o = 0;
		while (o < l) { ssize_t r = write(fd, c + o, l - o); if (r <= 0) abort(); o += r; }
		close(fd);
		strcpy(created[n_created++], path);
	}

	const int fd0 = open_fds();
	controldir_fd = open("control", O_RDONLY | O_DIRECTORY);
	struct userconf ds;
	userconf_init(&ds);
	ds.domaindirfd = open("dom", O_RDONLY | O_DIRECTORY);
	if (userdir) ds.userdirfd = open("dom/user", O_RDONLY | O_DIRECTORY);
	if (controldir_fd < 0 || ds.domaindirfd < 0 || (userdir && ds.userdirfd < 0)) abort();

	char **tmpconf = NULL;
	if (loadlistfd(openat(controldir_fd, "filterconf", O_RDONLY | O_CLOEXEC), &tmpconf, NULL) != 0) {
		out_str("GLOBALERR");
		goto done;
	}
	globalconf = (const char **)tmpconf;
	if (userconf_load_configs(&ds) != 0) {
		out_str("CONFERR");
		goto done;
	}

	memset(&xmitstat, 0, sizeof(xmitstat));
	char *mf = malloc(f[3].len + 1); memcpy(mf, f[3].p, f[3].len); mf[f[3].len] = 0;	/* exact size for ASan */
	char *helo = malloc(f[4].len + 1); memcpy(helo, f[4].p, f[4].len); helo[f[4].len] = 0;
	if (f[3].len) { xmitstat.mailfrom.s = mf; xmitstat.mailfrom.len = f[3].len; }
	xmitstat.helostr.s = helo; xmitstat.helostr.len = f[4].len;
	memcpy(&xmitstat.sremoteip, f[5].p, 16);
	inet_ntop(AF_INET6, &xmitstat.sremoteip, xmitstat.remoteip, sizeof(xmitstat.remoteip));
	xmitstat.ipv4conn = (misc[0] & 2) ? 1 : 0;
	xmitstat.esmtp = (misc[0] & 4) ? 1 : 0;
	xmitstat.ssl = (misc[0] & 8) ? (SSL *)&xmitstat : NULL;
	if (misc[0] & 16) { xmitstat.authname.s = "user"; xmitstat.authname.len = 4; }
	xmitstat.helostatus = misc[1] & 7;
	xmitstat.check2822 = misc[2] & 3;
	xmitstat.fromdomain = misc[3] == 0xfe ? DNS_ERROR_TEMP : misc[3] == 0xfd ? DNS_ERROR_PERM : (misc[3] & 3);

	/* the recipient list: earlier recipients, then this one */
	TAILQ_INIT(&head);
	struct recip *rs = calloc(64, sizeof(*rs)); int nr = 0;
	for (size_t o = 0; o < f[6].len && nr < 62; ) {
		const unsigned char *e = memchr(f[6].p + o, '\n', f[6].len - o);
		size_t l = e ? (size_t)(e - (f[6].p + o)) : f[6].len - o;
		if (l) {
			rs[nr].to.s = malloc(l + 1); memcpy(rs[nr].to.s, f[6].p + o, l); rs[nr].to.s[l] = 0; rs[nr].to.len = l;
			rs[nr].ok = 1;
			TAILQ_INSERT_TAIL(&head, &rs[nr], entries); nr++;
		}
		o += l + 1;
	}
	rs[nr].to.s = strdup("postmaster@example.org"); rs[nr].to.len = strlen(rs[nr].to.s);
	TAILQ_INSERT_TAIL(&head, &rs[nr], entries);
	thisrecip = &rs[nr]; nr++;

	/* frommx */
	struct ips *mx = NULL; struct in6_addr *addrs = NULL; struct ips *nodes = NULL;
	size_t k = f[8].len / 16;
	if (k) {
		addrs = malloc(f[8].len); memcpy(addrs, f[8].p, f[8].len);
		nodes = calloc(k, sizeof(*nodes));
		if (misc[0] & 32) {
			for (size_t i = 0; i < k; i++) { nodes[i].addr = addrs + i; nodes[i].count = 1; nodes[i].next = i + 1 < k ? &nodes[i + 1] : NULL; }
		} else {
			nodes[0].addr = addrs; nodes[0].count = k; nodes[0].next = NULL;
		}
		mx = nodes;
	}
	xmitstat.frommx = mx;

	dns_script = f[7].p; dns_len = f[7].len; dns_pos = 0; dns_calls = 0;
	n_sent = 0;
	const char *logmsg = NULL;
	enum config_domain t = misc[4] == 0xea ? -EINVAL : misc[4];
	errno = 0;
	enum filter_result r = cb_table[f[1].p[0]](&ds, &logmsg, &t);

	out_str("r="); out_int((int)r + 1);
	out_str(" t=");
	if (r == FILTER_PASSED || r == FILTER_ERROR) out_str("-"); else out_int((int)t);
	out_str(" reply="); out_hex(sent, n_sent);
	out_str(" c2822="); out_int(xmitstat.check2822);
	out_str(" dnscalls="); out_int(dns_calls);

	for (int i = 0; i < nr; i++) free(rs[i].to.s);
	free(rs); free(mf); free(helo); free(addrs); free(nodes);
done:
	free(tmpconf); globalconf = NULL;
	userconf_free(&ds);
	close(controldir_fd);
	out_str(" leak="); out_int(open_fds() != fd0);
	rm_tree();
	if (chdir("/") == 0) rmdir(base);
}

int main(void) { return harness_main(); }

/* C side of the `tlsverify` engine (property C01, third entitlement: TLS client certificate).
 *
 * Real code, one translation unit, unchanged from VERIF_REPO's working tree:
 *   qsmtpd/starttls.c   tls_verify(), tls_check_cert(), tls_out(), the static ssl_verified
 *   qsmtpd/commands.c   is_authenticated(), lookupipbl_name()  (both static: reached through the #include)
 * Real OpenSSL (libcrypto/libssl 3.0) for everything that works on the certificate and on the SSL object:
 *   X509_get_subject_name, X509_NAME_get_index_by_NID, X509_NAME_get_entry, X509_NAME_ENTRY_get_data,
 *   ASN1_STRING_length, ASN1_STRING_get0_data, X509_free, SSL_set_client_CA_list, SSL_set_verify.
 *   The peer certificate is a real X509 object whose subject name is built from the case with
 *   X509_NAME_add_entry_by_NID (IA5String / UTF8String, any octets including NUL, any length including 0);
 *   xmitstat.ssl is a real SSL object that never sees a network.
 * Oracles scripted by the case (redirected by macro inside the TU or as link-time stand-ins):
 *   openat + lookupipbl (relay list, letter B), openat + loadlistfd of control/tlsclients (L),
 *   SSL_load_client_CA_file (A), SSL_set_session_id_context (I), ssl_timeoutrehandshake (H), SSL_get_verify_result (V),
 *   SSL_get_peer_certificate (P), strdup (D), net_writen called by tls_out (W), dieerror (X, ends the case: the process is gone).
 *   The letters consulted by one call are printed in order.
 *
 * case:   7c <init> { <call> <clients> <subject> }...
 *   init     2 octets: relayclient, ssl_verified at the start
 *   call     12 octets: op (0 tls_verify(), 1 is_authenticated(), 2 end of a transaction: the two statements of freedata() in
 *            qsmtpd/qsmtpd.c that touch this state, "free(xmitstat.tlsclient); xmitstat.tlsclient = NULL;", TRANSCRIBED here -
 *            tools/translators/tlsverify.py checks that freedata() contains exactly them and does not mention relayclient); flags (bit0 TLS active, bit1 xmitstat.authname set);
 *            relay list (0 no file, 1 not listed, 2 listed, 3 lookup error); tlsclients (0 loadlistfd fails, 1 NULL list, 2 list);
 *            errno of the failing loadlistfd; SSL_load_client_CA_file ok (1) / NULL (0); result of SSL_set_session_id_context
 *            (signed octet); result of ssl_timeoutrehandshake (signed octet); SSL_get_verify_result; peer certificate present;
 *            strdup succeeds (1) / fails (0); result of net_writen (signed octet)
 *   clients  the entries of control/tlsclients, separated by NUL octets (empty pieces are dropped)
 *   subject  entries of the certificate's subject name in order: tag (1 emailAddress, 2 commonName, 3 organizationName), length, octets
 * result: per call  <r|die><value>,<relayclient>,<ssl_verified>,<tlsclient in hex | null>,<letters | ->
 */
#include "hcommon.h"
#include <unistd.h>
#include <fcntl.h>
#include <syslog.h>
#include <openssl/ssl.h>
#include <openssl/x509.h>

#include <qsmtpd/commands.h>
#include <qsmtpd/qsmtpd.h>
#include <qsmtpd/starttls.h>
#include <qsmtpd/antispam.h>
#include <qsmtpd/addrparse.h>
#include <qsmtpd/userconf.h>
#include <qsmtpd/userfilters.h>
#include <qsmtpd/queue.h>
#include <qsmtpd/qsauth.h>
#include <qsmtpd/syntax.h>
#include <qsmtpd/xtext.h>
#include <control.h>
#include <netio.h>
#include <log.h>
#include <ssl_timeoutio.h>
#include <tls.h>

/* ---------------------------------------------------------------- the script of the current call */
static struct {
	int ipbl, listmode, listerrno, ca, sid, hs, peer, dupok, netw;
	long verify;
	const unsigned char *clients; size_t clientslen;
	X509 *cert;
} cur;
static char lg[64]; static int nlg;
static void note(char c) { if (nlg < 63) lg[nlg++] = c; }
static jmp_buf diejmp;
static int died;

static int h_openat(int dirfd, const char *fn, int flags)
{
	(void)dirfd; (void)flags;
	if (strncmp(fn, "relayclients", 12) == 0) {
		note('B');
		if (cur.ipbl == 0) { errno = ENOENT; return -1; }
		return 1000;
	}
	return 1001;        /* control/tlsclients: handed to loadlistfd */
}
static int h_lookupipbl(int fd)
{
	(void)fd;
	return cur.ipbl == 1 ? 0 : cur.ipbl == 2 ? 1 : (errno = EINVAL, -1);
}
static int h_loadlistfd(int fd, char ***bufa, checkfunc cf)
{
	(void)fd; (void)cf;
	note('L');
	if (cur.listmode == 0) { errno = cur.listerrno; return -1; }
	if (cur.listmode == 1) { *bufa = NULL; return 0; }
	/* one block like data_array(): the pointers, then the strings */
	size_t n = 0;
	for (size_t i = 0; i < cur.clientslen; i++)
		if (cur.clients[i] && (i == 0 || !cur.clients[i - 1])) n++;
	char **a = malloc((n + 1) * sizeof(char *) + cur.clientslen + 1);
	char *s = (char *)(a + n + 1);
	size_t k = 0;
	for (size_t i = 0; i < cur.clientslen; ) {
		if (!cur.clients[i]) { i++; continue; }
		size_t l = strnlen((const char *)cur.clients + i, cur.clientslen - i);
		a[k++] = s;
		memcpy(s, cur.clients + i, l); s[l] = 0; s += l + 1;
		i += l;
	}
	a[k] = NULL;
	*bufa = a;
	return 0;
}
static STACK_OF(X509_NAME) *h_load_ca(const char *fn)
{
	note('A');
	if (strcmp(fn, "control/clientca.pem") != 0) abort();
	return cur.ca ? sk_X509_NAME_new_null() : NULL;
}
static int h_set_sid(SSL *s, const unsigned char *ctx, unsigned int l) { (void)s; (void)ctx; (void)l; note('I'); return cur.sid; }
static long h_verify_result(const SSL *s) { (void)s; note('V'); return cur.verify; }
static X509 *h_peer_cert(const SSL *s)
{
	(void)s; note('P');
	if (!cur.peer) return NULL;
	X509_up_ref(cur.cert);
	return cur.cert;
}
static char *h_strdup(const char *s)
{
	note('D');
	if (!cur.dupok) { errno = ENOMEM; return NULL; }
	size_t l = strlen(s);
	char *r = malloc(l + 1);
	memcpy(r, s, l + 1);
	return r;
}

#undef strdup
#define strdup(s) h_strdup(s)
#define openat(a, b, c) h_openat(a, b, c)
#define loadlistfd(a, b, c) h_loadlistfd(a, b, c)
#define lookupipbl(a) h_lookupipbl(a)
#undef SSL_load_client_CA_file
#define SSL_load_client_CA_file(f) h_load_ca(f)
#undef SSL_set_session_id_context
#define SSL_set_session_id_context(s, c, l) h_set_sid(s, (const unsigned char *)(c), l)
#undef SSL_get_verify_result
#define SSL_get_verify_result(s) h_verify_result(s)
#undef SSL_get_peer_certificate
#define SSL_get_peer_certificate(s) h_peer_cert(s)

#include "qsmtpd/starttls.c"
#include "qsmtpd/commands.c"

#undef strdup
#undef openat
#undef loadlistfd
#undef lookupipbl

/* ---------------------------------------------------------------- link-time stand-ins: oracles */
int ssl_timeoutrehandshake(SSL *s, time_t t) { (void)s; (void)t; note('H'); return cur.hs; }
int net_writen(const char *const *s)
{
	if (strncmp(s[0], "454 4.3.0 TLS ", 14) != 0) abort();
	note('W');
	return cur.netw;
}
void dieerror(int error) { note('X'); died = error; longjmp(diejmp, 1); }
const char *ssl_strerror(void) { return "oracle"; }
const char *ssl_error(void) { return "oracle"; }
void log_writen(int p, const char **s) { (void)p; (void)s; }
void log_write(int p, const char *s) { (void)p; (void)s; }
int err_control(const char *a) { (void)a; return 0; }
int err_control2(const char *a, const char *b) { (void)a; (void)b; return 0; }

/* ---------------------------------------------------------------- globals the two files expect */
struct xmitstat xmitstat;
int relayclient;
int controldir_fd = -1;
time_t timeout = 1;
int socketd = 1;
SSL *ssl;
char *rcpthosts;
off_t rcpthsize;
unsigned int rcptcount;
int submission_mode;
struct recip *thisrecip;
unsigned int goodrcpt;
const char **globalconf;
unsigned long databytes;
string heloname;
string liphost;
string linein;
unsigned long comstate;
struct smtpcomm *current_command;

/* never reached from tls_verify() / is_authenticated() */
#define NEVER(proto) proto { abort(); }
NEVER(int netnwrite(const char *s, const size_t l))
NEVER(int net_write_multiline(const char *const *s))
NEVER(size_t lloadfilefd(int fd, char **b, const int striptab))
NEVER(void ssl_free(SSL *s))
NEVER(int ssl_timeoutaccept(SSL *s, time_t t))
NEVER(void sync_pipelining(void))
NEVER(void ultostr(const unsigned long u, char *c))
NEVER(void freedata(void))
NEVER(void conn_cleanup(const int rc))
NEVER(char *smtp_authstring(void))
NEVER(int check_host(const char *a))
NEVER(ssize_t xtextlen(const char *a))
NEVER(int ask_dnsmx(const char *d, struct ips **i))
NEVER(void tarpit(void))
NEVER(void freeips(struct ips *i))
NEVER(int addrparse(char *in, const int flags, string *addr, char **more, struct userconf *ds, const char *rh, const off_t rs))
NEVER(void userconf_init(struct userconf *ds))
NEVER(void userconf_free(struct userconf *ds))
NEVER(int userconf_load_configs(struct userconf *ds))
NEVER(long getsetting(const struct userconf *ds, const char *c, enum config_domain *t))
NEVER(int domainvalid(const char * const d))
rcpt_cb rcpt_cbs[1];
const char *blocktype[1];

static SSL *the_ssl;

static void put_state(const char *kind, long v)
{
	out_str(kind); out_int(v); out_str(","); out_int(relayclient); out_str(","); out_int(ssl_verified); out_str(",");
	if (xmitstat.tlsclient) out_hex(xmitstat.tlsclient, strlen(xmitstat.tlsclient)); else out_str("null");
	out_str(",");
	lg[nlg] = 0;
	out_str(nlg ? lg : "-");
}

static X509 *make_cert(const unsigned char *p, size_t len)
{
	X509 *x = X509_new();
	X509_NAME *nm = X509_get_subject_name(x);
	size_t i = 0;
	while (i + 2 <= len) {
		int tag = p[i], l = p[i + 1];
		if (i + 2 + l > len) break;
		int nid = tag == 1 ? NID_pkcs9_emailAddress : tag == 2 ? NID_commonName : NID_organizationName;
		if (X509_NAME_add_entry_by_NID(nm, nid, tag == 1 ? V_ASN1_IA5STRING : V_ASN1_UTF8STRING, (unsigned char *)(p + i + 2), l, -1, 0) != 1)
			abort();
		i += 2 + l;
	}
	return x;
}

static void run_case(int nf, struct field *f)
{
	if (nf < 2 || (nf - 2) % 3 != 0 || f[0].len != 1 || f[0].p[0] != 0x7c || f[1].len != 2) { out_str("BADCASE"); return; }
	for (int c = 2; c < nf; c += 3)
		if (f[c].len != 12 || f[c].p[0] > 2) { out_str("BADCASE"); return; }
	relayclient = f[1].p[0];
	ssl_verified = f[1].p[1];
	free(xmitstat.tlsclient);
	xmitstat.tlsclient = NULL;
	static char an[] = "user";
	for (int c = 2; c < nf; c += 3) {
		const unsigned char *a = f[c].p;
		xmitstat.ssl = (a[1] & 1) ? the_ssl : NULL;
		xmitstat.authname.s = (a[1] & 2) ? an : NULL;
		xmitstat.authname.len = (a[1] & 2) ? 4 : 0;
		cur.ipbl = a[2]; cur.listmode = a[3]; cur.listerrno = a[4]; cur.ca = a[5]; cur.sid = (signed char)a[6];
		cur.hs = (signed char)a[7]; cur.verify = a[8]; cur.peer = a[9]; cur.dupok = a[10]; cur.netw = (signed char)a[11];
		cur.clients = f[c + 1].p; cur.clientslen = f[c + 1].len;
		cur.cert = make_cert(f[c + 2].p, f[c + 2].len);
		nlg = 0;
		if (c > 2) out_str(" ");
		if (setjmp(diejmp)) {
			put_state("die", died);
			X509_free(cur.cert);
			return;
		}
		errno = 0;
		int r = 0;
		if (a[0] == 2) {
			free(xmitstat.tlsclient);
			xmitstat.tlsclient = NULL;
		} else {
			r = a[0] ? is_authenticated() : tls_verify();
		}
		put_state("r", r);
		X509_free(cur.cert);
	}
}

int main(void)
{
	SSL_CTX *ctx = SSL_CTX_new(TLS_server_method());
	if (!ctx) return 2;
	the_ssl = SSL_new(ctx);
	if (!the_ssl) return 2;
	return harness_main();
}

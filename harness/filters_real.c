/* The real translation units of the `filters` engine, unchanged, from VERIF_REPO's working tree.
 * Only sleep-like calls are redirected (tarpit() is a stand-in in filters_h.c). */
#include "qsmtpd/commands.c"
#include "qsmtpd/addrparse.c"
#include "qsmtpd/addrsyntax.c"
#include "qsmtpd/filters/rcpt_filters.c"
#include "qsmtpd/backends/user_vpopm/getfile.c"
#include "qsmtpd/backends/user_vpopm/vpop.c"
#include "lib/control.c"
#include "lib/cdb.c"
#include "lib/mmap.c"
#include "lib/fmt.c"
#include "lib/dns_helpers.c"

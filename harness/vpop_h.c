/* C side of the `vpop` engine (property C13): the real qsmtpd/backends/user_vpopm/vpop.c
 * (user_exists, qmexists, vget_dir, userbackend_*, userconf_*), getfile.c, lib/cdb.c and
 * lib/control.c, run against a REAL directory tree built per case under build/vpop/t.<pid>/.
 * openat()/open() inside the included vpop.c (and the inline get_dirfd it uses) are redirected
 * by macro to h_openat/h_open, which log every name opened relative to the domain directory and
 * can inject an errno for a name the case marks as an error entry.
 *
 * case:  c1 <cdb> <domain> <layout> <bounce> <local> <tail>
 *   cdb     "-" = no users/cdb file; else records  <kind:1><len:1><domain>  kind 'd' = path of the case's domain
 *           directory, 'D' = same with "///" appended, 'm' = a path that does not exist, 'f' = path of a regular file;
 *           the single byte 'e' (hex 65) alone = an empty (zero length) users/cdb; 'E' = a cdb without records
 *   domain  the domain handed to user_exists()
 *   layout  records <kind:1><namelen:1><name> followed by: kind 'f' <contentlen:1><content>; kind 'd' nothing;
 *           kind 'e' <errno:1> (every open of that name relative to the domain directory fails with this errno)
 *   bounce  "-" = no control/vpopbounce; else 'b' followed by the file's contents
 *   local   the local part (localpart->len bytes);  tail = the bytes that follow it in memory before the NUL
 *           (the real caller passes a pointer into "local@domain")
 *        c2 <cdb> <domain> <layout> <bounce> <local> -     the same tree, but the real addrparse() (qsmtpd/addrparse.c,
 *           addrsyntax.c, lib/dns_helpers.c) is run on the argument of "RCPT TO:<local@domain>" with rcpthosts = the
 *           lower-cased domain.  result: <rc of addrparse> <hex of the strings handed to net_writen, or -> <conf> <probe>...
 * result: <rc> <conf> <probe>...    rc = return value of user_exists(); conf = which filterconf ends up as the
 *         *user's* configuration after userconf_load_configs() when rc > 0: none | user | domain | outside
 *         ('-' when rc <= 0); probe = d:<hexname> (get_dirfd) or f:<hexname> (openat O_RDONLY) relative to the
 *         domain directory, in call order.
 */
#include "hcommon.h"
#include <unistd.h>
#include <stdarg.h>
#include <dirent.h>
#include <ftw.h>
#include <limits.h>
#include <stdint.h>
#include <sys/stat.h>

static int h_openat(int dirfd, const char *name, int flags, ...);
static int h_open(const char *name, int flags, ...);
#define openat(...) h_openat(__VA_ARGS__)
#define open(...) h_open(__VA_ARGS__)
#include "qsmtpd/backends/user_vpopm/vpop.c"
#undef openat
#undef open
#include "qsmtpd/backends/user_vpopm/getfile.c"
#include "lib/cdb.c"
#include "lib/control.c"
#include "lib/mmap.c"
#include "lib/dns_helpers.c"
#include "qsmtpd/addrsyntax.c"
#include "qsmtpd/addrparse.c"

/* ---- collaborators of the included files that are outside the property ---- */
const char **globalconf;
int err_control(const char *fn) { (void)fn; return 0; }			/* as in Qsmtpd when the 421 could be written */
int err_control2(const char *m, const char *fn) { (void)m; (void)fn; return 0; }
void log_write(int p, const char *s) { (void)p; (void)s; }
void log_writen(int p, const char **s) { (void)p; (void)s; }
struct xmitstat xmitstat;
string liphost;
void tarpit(void) { }
static char h_reply[8192]; static size_t h_replylen;
int net_writen(const char *const *s)
{
	for (int i = 0; s[i]; i++) { size_t l = strlen(s[i]); if (h_replylen + l < sizeof(h_reply)) { memcpy(h_reply + h_replylen, s[i], l); h_replylen += l; } }
	return 0;
}
int netnwrite(const char *s, const size_t l)
{
	if (h_replylen + l < sizeof(h_reply)) { memcpy(h_reply + h_replylen, s, l); h_replylen += l; }
	return 0;
}
void ultostr(const unsigned long u, char *res) { sprintf(res, "%lu", u); }

/* ---- open() redirection ---- */
static int h_logging;
struct inj { const unsigned char *name; size_t len; int err; };
static struct inj h_inj[64]; static int h_ninj;

static int h_open(const char *name, int flags, ...)
{
	return (open)(name, flags, 0);
}

static int h_openat(int dirfd, const char *name, int flags, ...)
{
	if (h_logging && dirfd != AT_FDCWD) {
		size_t l = strlen(name);
		if (h_logging == 1) {		/* 2 = inject only (c3) */
			out_str((flags & O_DIRECTORY) ? " d:" : " f:");
			out_hex(name, l);
		}
		for (int i = 0; i < h_ninj; i++)
			if (h_inj[i].len == l && memcmp(h_inj[i].name, name, l) == 0) {
				errno = h_inj[i].err;
				return -1;
			}
	}
	return (openat)(dirfd, name, flags, 0);
}

/* ---- scratch tree ---- */
static char h_base[PATH_MAX];		/* build/vpop/t.<pid> */

static int rm_cb(const char *p, const struct stat *st, int t, struct FTW *f)
{
	(void)st; (void)t; (void)f;
	return remove(p);
}
static void rm_rf(const char *p) { nftw(p, rm_cb, 32, FTW_DEPTH | FTW_PHYS); }

static int put_file(const char *path, const void *data, size_t len)
{
	int fd = (open)(path, O_WRONLY | O_CREAT | O_EXCL, 0644);
	if (fd < 0) return -1;
	if (len && write(fd, data, len) != (ssize_t)len) { close(fd); return -1; }
	return close(fd);
}

/* minimal cdbmake */
struct crec { uint32_t h, pos; };
static uint32_t chash(const unsigned char *b, size_t l) { uint32_t h = 5381; while (l--) { h += (h << 5); h ^= *b++; } return h; }
static void pk(unsigned char *b, uint32_t v) { b[0] = v; b[1] = v >> 8; b[2] = v >> 16; b[3] = v >> 24; }
static int write_cdb(const char *path, int n, unsigned char **keys, size_t *klen, unsigned char **vals, size_t *vlen)
{
	size_t cap = 2048 + 16 * (size_t)n + 64;
	for (int i = 0; i < n; i++) cap += 8 + klen[i] + vlen[i];
	unsigned char *b = calloc(cap, 1);
	struct crec *r = calloc(n + 1, sizeof(*r));
	size_t pos = 2048;
	for (int i = 0; i < n; i++) {
		r[i].h = chash(keys[i], klen[i]); r[i].pos = pos;
		pk(b + pos, klen[i]); pk(b + pos + 4, vlen[i]);
		memcpy(b + pos + 8, keys[i], klen[i]); memcpy(b + pos + 8 + klen[i], vals[i], vlen[i]);
		pos += 8 + klen[i] + vlen[i];
	}
	for (int t = 0; t < 256; t++) {
		int cnt = 0;
		for (int i = 0; i < n; i++) if ((r[i].h & 255) == (uint32_t)t) cnt++;
		uint32_t slots = 2 * cnt;
		pk(b + 8 * t, pos); pk(b + 8 * t + 4, slots);
		for (int i = 0; i < n; i++) if ((r[i].h & 255) == (uint32_t)t) {
			uint32_t s = (r[i].h >> 8) % slots;
			while (b[pos + 8 * s + 4] | b[pos + 8 * s + 5] | b[pos + 8 * s + 6] | b[pos + 8 * s + 7]) s = (s + 1) % slots;
			pk(b + pos + 8 * s, r[i].h); pk(b + pos + 8 * s + 4, r[i].pos);
		}
		pos += 8 * slots;
	}
	int rc = put_file(path, b, pos);
	free(b); free(r);
	return rc;
}

static int name_ok(const unsigned char *n, size_t l)
{
	if (l == 0 || l > 255) return 0;
	if (l == 1 && n[0] == '.') return 0;
	if (l == 2 && n[0] == '.' && n[1] == '.') return 0;
	for (size_t i = 0; i < l; i++) if (n[i] == '/' || n[i] == 0) return 0;
	if (l == 10 && !memcmp(n, "filterconf", 10)) return 0;	/* the marker file */
	return 1;
}

static int count_fds(void)
{
	int n = 0;
	DIR *d = opendir("/proc/self/fd");
	if (!d) return -1;
	while (readdir(d)) n++;
	closedir(d);
	return n;
}

#define BAD do { out_str("BADCASE"); goto done; } while (0)

static void run_case(int nf, struct field *f)
{
	char root[PATH_MAX + 64], path[2 * PATH_MAX];
	int cwdfd = -1;
	if (!h_base[0]) {
		char exe[PATH_MAX];
		ssize_t n = readlink("/proc/self/exe", exe, sizeof(exe) - 1);
		if (n <= 0) { strcpy(exe, "/tmp/x"); n = 6; }
		exe[n] = 0;
		char *sl = strrchr(exe, '/'); if (sl) *sl = 0;
		snprintf(h_base, sizeof(h_base), "%s/t.%ld", exe, (long)getpid());
	}
	h_ninj = 0;
	if (nf != 7 || f[0].len != 1 || (f[0].p[0] < 0xc1 || f[0].p[0] > 0xc4)) { out_str("BADCASE"); return; }
	const int op = f[0].p[0];
	if ((op == 0xc2 || op == 0xc3) && f[6].len) { out_str("BADCASE"); return; }
	struct field *cdb = &f[1], *dom = &f[2], *lay = &f[3], *bnc = &f[4], *loc = &f[5], *tail = &f[6];
	if (op != 0xc3 && (memchr(dom->p, 0, dom->len) || memchr(loc->p, 0, loc->len))) { out_str("BADCASE"); return; }
	if (op != 0xc4 && memchr(tail->p, 0, tail->len)) { out_str("BADCASE"); return; }

	rm_rf(h_base);
	cwdfd = (open)(".", O_RDONLY);
	snprintf(root, sizeof(root), "%s/c", h_base);
	if (mkdir(h_base, 0755) || mkdir(root, 0755) || chdir(root)) { out_str("BADCASE mkdir"); goto done2; }
	if (mkdir("users", 0755) || mkdir("control", 0755) || mkdir("outer", 0755) || mkdir("outer/dom", 0755)) BAD;
	if (put_file("outer/filterconf", "marker_outside\n", 15) || put_file("outer/dom/filterconf", "marker_domain\n", 14)
			|| put_file("outer/afile", "x", 1)) BAD;

	/* domain directory contents */
	for (size_t i = 0; i < lay->len; ) {
		if (i + 2 > lay->len) BAD;
		int kind = lay->p[i]; size_t nl = lay->p[i + 1]; i += 2;
		if (i + nl > lay->len) BAD;
		const unsigned char *nm = lay->p + i; i += nl;
		if (!name_ok(nm, nl)) BAD;
		snprintf(path, sizeof(path), "outer/dom/%.*s", (int)nl, nm);
		if (kind == 'f') {
			if (i + 1 > lay->len) BAD;
			size_t cl = lay->p[i]; i++;
			if (i + cl > lay->len) BAD;
			put_file(path, lay->p + i, cl);		/* a second entry of the same name is ignored */
			i += cl;
		} else if (kind == 'd') {
			if (mkdir(path, 0755) == 0) {
				strcat(path, "/filterconf");
				put_file(path, "marker_user\n", 12);
			}
		} else if (kind == 'e') {
			if (i + 1 > lay->len || h_ninj >= 64) BAD;
			int dup = 0;
			for (int k = 0; k < h_ninj; k++) if (h_inj[k].len == nl && !memcmp(h_inj[k].name, nm, nl)) dup = 1;
			struct stat st;
			if (!dup && lstat(path, &st) != 0) { h_inj[h_ninj].name = nm; h_inj[h_ninj].len = nl; h_inj[h_ninj].err = lay->p[i]; h_ninj++; }
			i++;
		} else BAD;
	}
	/* control/vpopbounce */
	if (bnc->len) {
		if (bnc->p[0] != 'b') BAD;
		if (put_file("control/vpopbounce", bnc->p + 1, bnc->len - 1)) BAD;
	}
	/* users/cdb */
	if (cdb->len == 1 && cdb->p[0] == 'e') {
		if (put_file("users/cdb", "", 0)) BAD;
	} else if (cdb->len) {
		unsigned char *keys[64], *vals[64]; size_t kl[64], vl[64]; int n = 0;
		if (!(cdb->len == 1 && cdb->p[0] == 'E'))
		for (size_t i = 0; i < cdb->len; ) {
			if (i + 2 > cdb->len || n >= 64) BAD;
			int kind = cdb->p[i]; size_t dl = cdb->p[i + 1]; i += 2;
			if (i + dl > cdb->len) BAD;
			const char *p;
			switch (kind) {
			case 'd': p = "outer/dom"; break;
			case 'D': p = "outer/dom///"; break;
			case 'm': p = "outer/missing"; break;
			case 'f': p = "outer/afile"; break;
			default: BAD;
			}
			int seen = 0;		/* cdb returns the first record of a key: later duplicates are dropped here */
			for (int k = 0; k < n; k++) if (kl[k] == dl + 2 && !memcmp(keys[k] + 1, cdb->p + i, dl)) seen = 1;
			if (!seen) {
				keys[n] = malloc(dl + 2); keys[n][0] = '!'; memcpy(keys[n] + 1, cdb->p + i, dl); keys[n][dl + 1] = '-'; kl[n] = dl + 2;
				vals[n] = malloc(dl + strlen(p) + 16);
				size_t o = 0;
				memcpy(vals[n], cdb->p + i, dl); o = dl; vals[n][o++] = 0;
				memcpy(vals[n] + o, "89\0" "89\0", 6); o += 6;
				memcpy(vals[n] + o, p, strlen(p) + 1); o += strlen(p) + 1;
				memcpy(vals[n] + o, "-\0\0", 3); o += 3;
				vl[n] = o;
				n++;
			}
			i += dl;
		}
		int rc = write_cdb("users/cdb", n, keys, kl, vals, vl);
		for (int k = 0; k < n; k++) { free(keys[k]); free(vals[k]); }
		if (rc) BAD;
	}

	controldir_fd = get_dirfd(AT_FDCWD, "control");
	if (userbackend_init() != 0) BAD;
	if (op == 0xc3) {
		/* a sequence of user_exists() calls on ONE struct userconf (as the global cache used for MAIL FROM):
		 * domains and locals are lists of <len:1><bytes>, call i uses the i-th of each.
		 * result: <rc>,<rc>,... <descriptors open at the end above the level before the first call> <the same after userconf_free()> */
		struct userconf ds;
		userconf_init(&ds);
		size_t di = 0, li = 0; int n = 0, bad = 0;
		int base = count_fds();
		while (di < dom->len && li < loc->len && n < 64) {
			size_t dl = dom->p[di++], ll = loc->p[li++];
			if (di + dl > dom->len || li + ll > loc->len || memchr(dom->p + di, 0, dl) || memchr(loc->p + li, 0, ll)) { bad = 1; break; }
			char *d = malloc(dl + 1); memcpy(d, dom->p + di, dl); d[dl] = 0;
			char *l = malloc(ll + 1); memcpy(l, loc->p + li, ll); l[ll] = 0;
			const string localpart = { .s = l, .len = ll };
			errno = 0;
			h_logging = 2;
			int r = user_exists(&localpart, d, &ds);
			h_logging = 0;
			if (n) out_str(",");
			out_int(r);
			free(d); free(l);
			di += dl; li += ll; n++;
		}
		if (bad || di != dom->len || li != loc->len || n == 0) { h_outlen = 0; if (h_outbuf) h_outbuf[0] = 0; out_str("BADCASE"); userconf_free(&ds); }
		else {
			out_str(" "); out_int(count_fds() - base);
			userconf_free(&ds);
			out_str(" "); out_int(count_fds() - base);
		}
	} else if (op == 0xc2 || op == 0xc4) {
		struct userconf ds;
		userconf_init(&ds);
		/* c4: RCPT TO:<local@[iptext]>; tail = <localip> NUL <iptext>, the domain field is liphost */
		struct field lit = { NULL, 0 };
		if (op == 0xc4) {
			unsigned char *z = memchr(tail->p, 0, tail->len);
			if (!z || (size_t)(z - tail->p) >= sizeof(xmitstat.localip) || memchr(z + 1, 0, tail->len - (z + 1 - tail->p))) BAD;
			memcpy(xmitstat.localip, tail->p, z - tail->p + 1);
			lit.len = tail->len - (z + 1 - tail->p) + 2;
			lit.p = malloc(lit.len + 1);
			lit.p[0] = '['; memcpy(lit.p + 1, z + 1, lit.len - 2); lit.p[lit.len - 1] = ']'; lit.p[lit.len] = 0;
			liphost.s = malloc(dom->len + 1); memcpy(liphost.s, dom->p, dom->len); liphost.s[dom->len] = 0; liphost.len = dom->len;
			dom = &lit;
		}
		/* "local@domain>" as it stands in linein after "RCPT TO:<", rcpthosts = the lower-cased domain */
		char *in = malloc(loc->len + dom->len + 3);
		memcpy(in, loc->p, loc->len); in[loc->len] = '@'; memcpy(in + loc->len + 1, dom->p, dom->len);
		in[loc->len + dom->len + 1] = '>'; in[loc->len + dom->len + 2] = 0;
		char *rh = malloc(dom->len + 2);
		for (size_t i = 0; i < dom->len; i++) rh[i] = (dom->p[i] >= 'A' && dom->p[i] <= 'Z') ? dom->p[i] + 32 : dom->p[i];
		rh[dom->len] = '\n'; rh[dom->len + 1] = 0;
		string addr; char *more = NULL;
		STREMPTY(addr);
		h_replylen = 0;
		out_str("");
		size_t mark = h_outlen;
		h_logging = 1;
		errno = 0;
		int r = addrparse(in, 1, &addr, &more, &ds, rh, dom->len + 1);
		h_logging = 0;
		char *probes = strdup(h_outbuf ? h_outbuf + mark : "");
		h_outlen = mark; if (h_outbuf) h_outbuf[h_outlen] = 0;
		out_int(r); out_str(" "); out_hex(h_reply, h_replylen);
		if (r == 0 && ds.domaindirfd >= 0) {
			int e = userconf_load_configs(&ds);
			const char *u = (ds.userconf && ds.userconf[0]) ? ds.userconf[0] : "";
			if (e) out_str(" loaderr");
			else if (!strcmp(u, "marker_outside")) out_str(" outside");
			else if (!strcmp(u, "marker_domain")) out_str(" domain");
			else if (!strcmp(u, "marker_user")) out_str(" user");
			else if (!*u) out_str(" none");
			else out_str(" other");
		} else out_str(" -");
		out_str(probes);
		free(probes);
		userconf_free(&ds);
		free(addr.s); free(in); free(rh);
		if (op == 0xc4) { free(lit.p); free(liphost.s); liphost.s = NULL; liphost.len = 0; xmitstat.localip[0] = 0; }
	} else {
		struct userconf ds;
		userconf_init(&ds);
		/* exact-size copies: ASan sees any read past the terminator */
		char *buf = malloc(loc->len + tail->len + 1);
		memcpy(buf, loc->p, loc->len); memcpy(buf + loc->len, tail->p, tail->len); buf[loc->len + tail->len] = 0;
		char *d = malloc(dom->len + 1); memcpy(d, dom->p, dom->len); d[dom->len] = 0;
		const string localpart = { .s = buf, .len = loc->len };

		out_str("");		/* terminates (and allocates) the output buffer */
		size_t mark = h_outlen;
		h_logging = 1;
		errno = 0;
		int r = user_exists(&localpart, d, &ds);
		h_logging = 0;
		/* the probes were appended while running: move rc and conf in front of them */
		char *probes = strdup(h_outbuf ? h_outbuf + mark : "");
		h_outlen = mark; if (h_outbuf) h_outbuf[h_outlen] = 0;
		out_int(r);
		if (r > 0 && r != 5) {
			int e = userconf_load_configs(&ds);
			const char *u = (ds.userconf && ds.userconf[0]) ? ds.userconf[0] : "";
			if (e) out_str(" loaderr");
			else if (!strcmp(u, "marker_outside")) out_str(" outside");
			else if (!strcmp(u, "marker_domain")) out_str(" domain");
			else if (!strcmp(u, "marker_user")) out_str(" user");
			else if (!*u) out_str(" none");
			else out_str(" other");
		} else out_str(" -");
		out_str(probes);
		free(probes);
		userconf_free(&ds);
		free(buf); free(d);
	}
	userbackend_free();
	vpopbounce = NULL;
	close(controldir_fd); controldir_fd = -1;
done:
	if (cwdfd >= 0) { if (fchdir(cwdfd)) {} }
done2:
	if (cwdfd >= 0) close(cwdfd);
	rm_rf(h_base);
}

int main(void) { return harness_main(); }

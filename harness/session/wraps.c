/* link-time wrappers (-Wl,--wrap=sleep,--wrap=time,--wrap=gettimeofday): no real waiting, fixed clock */
#include <sys/time.h>
#include <time.h>
#include <unistd.h>
unsigned int __wrap_sleep(unsigned int s) { (void)s; return 0; }
time_t __wrap_time(time_t *t) { if (t) *t = 1000000000; return 1000000000; }
int __wrap_gettimeofday(struct timeval *tv, void *tz) { (void)tz; tv->tv_sec = 1000000000; tv->tv_usec = 123456; return 0; }

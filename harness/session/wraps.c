/* link-time wrappers (-Wl,--wrap=sleep,--wrap=time,--wrap=gettimeofday): no real waiting, fixed clock */
#include <sys/time.h>
#include <time.h>
#include <unistd.h>
unsigned int __wrap_sleep(unsigned int s) { (void)s; return 0; }
time_t __wrap_time(time_t *t) { if (t) *t = 1000000000; return 1000000000; }
int __wrap_gettimeofday(struct timeval *tv, void *tz) { (void)tz; tv->tv_sec = 1000000000; tv->tv_usec = 123456; return 0; }

/* the tarpit waits in poll() on the input for (5+n) seconds; answer at once so that a session takes milliseconds.
 * The reader's own poll() uses control/timeoutsmtpd (set to 1000 s by the harness) and is left alone. */
#include <poll.h>
int __real_poll(struct pollfd *fds, nfds_t nfds, int timeout);
int __wrap_poll(struct pollfd *fds, nfds_t nfds, int timeout)
{
	if (nfds == 1 && fds[0].fd == 0 && timeout > 0 && timeout <= 300000)
		timeout = 0;
	return __real_poll(fds, nfds, timeout);
}

/* queue_init() looks once, right behind fork(), whether the child is already gone: waitpid(qpid, NULL, WNOHANG).  Whether it
 * sees a child that dies at once (exec of $QMAILQUEUE failed: _exit(120); a queue program that exits immediately) is a race
 * between the two processes.  The harness FORCES one of the two legal schedules, per invocation, from the same plan file the
 * qmail-queue stand-in reads (line k for the k-th call):
 *   ns  "seen":   the call waits until the child has exited (waitid with WNOWAIT: it stays waitable) and then asks for real
 *   nh  "missed": the call waits until the child has exited and answers 0 without asking: queue_init() goes on, the child is
 *                 certainly dead when the Received: header is written
 * every other plan entry: the real call. */
#include <sys/wait.h>
#include <stdio.h>
#include <stdlib.h>
#include <string.h>
pid_t __real_waitpid(pid_t pid, int *status, int options);
pid_t __wrap_waitpid(pid_t pid, int *status, int options)
{
	static int calls;
	if (options & WNOHANG) {
		const char *plan = getenv("QQ_PLAN");
		char line[64] = "";
		int k = calls++;
		if (plan) {
			FILE *f = fopen(plan, "r");
			if (f) {
				for (int i = 0; i <= k; i++)
					if (!fgets(line, sizeof(line), f)) { line[0] = 0; break; }
				fclose(f);
			}
		}
		if (!strncmp(line, "ns", 2) || !strncmp(line, "nh", 2)) {
			siginfo_t info;
			waitid(P_PID, pid, &info, WEXITED | WNOWAIT);
			if (line[1] == 'h')
				return 0;
		}
	}
	return __real_waitpid(pid, status, options);
}

/* link-time wrappers (-Wl,--wrap=sleep,--wrap=time,--wrap=gettimeofday): no real waiting, fixed clock */
#include <sys/time.h>
#include <time.h>
#include <unistd.h>
unsigned int __wrap_sleep(unsigned int s) { (void)s; return 0; }
time_t __wrap_time(time_t *t) { if (t) *t = 1000000000; return 1000000000; }
int __wrap_gettimeofday(struct timeval *tv, void *tz) { (void)tz; tv->tv_sec = 1000000000; tv->tv_usec = 123456; return 0; }

/* the tarpit waits in poll() on the input for (5+n) seconds; answer at once so that a session takes milliseconds.
 * The reader's own poll() uses control/timeoutsmtpd (set to 1000 s by the harness) and is left alone. */
#include <poll.h>
int __real_poll(struct pollfd *fds, nfds_t nfds, int timeout);
int __wrap_poll(struct pollfd *fds, nfds_t nfds, int timeout)
{
	if (nfds == 1 && fds[0].fd == 0 && timeout > 0 && timeout <= 300000)
		timeout = 0;
	return __real_poll(fds, nfds, timeout);
}

/* Stand-in for lib/libowfatconn.c in the whole-program harness: a tiny static zone.
 *   names starting with "nomx."   : no MX, no address  (ask_dnsmx() -> 1, "cannot find a mail exchanger")
 *   names starting with "nullmx." : RfC 7505 null MX
 *   names starting with "tempdns.": temporary resolver failure
 *   any other name                : MX 10 mx.example.net, A 192.0.2.25, no AAAA
 *   TXT: SPF records for a few sender / HELO domains (zone_txt: fail, pass, softfail, neutral), none for all others;
 *        FAKEDNS_TXT, if set, is the text for every name
 *   PTR: none
 */
#include <errno.h>
#include <stdlib.h>
#include <string.h>
#include <netinet/in.h>
#include <libowfatconn.h>

static int starts(const char *h, const char *p) { return strncmp(h, p, strlen(p)) == 0; }

int dnsip4(char **out, size_t *len, const char *host)
{
	*out = NULL; *len = 0;
	if (starts(host, "tempdns.")) { errno = ETIMEDOUT; return -1; }
	if (starts(host, "nomx.")) { errno = ENOENT; return -1; }
	*out = malloc(4);
	if (!*out) return -1;
	memcpy(*out, "\xc0\x00\x02\x19", 4);
	*len = 4;
	return 0;
}
int dnsip6(char **out, size_t *len, const char *host)
{
	*out = NULL; *len = 0;
	if (starts(host, "tempdns.")) { errno = ETIMEDOUT; return -1; }
	if (starts(host, "nomx.")) { errno = ENOENT; return -1; }
	return 0;
}
int dnsmx(char **out, size_t *len, const char *host)
{
	static const char mx[] = "\0\012mx.example.net";
	*out = NULL; *len = 0;
	if (starts(host, "tempdns.")) { errno = ETIMEDOUT; return -1; }
	if (starts(host, "nomx.")) { errno = ENOENT; return -1; }
	if (starts(host, "nullmx.")) {
		*out = malloc(4); memcpy(*out, "\0\0.\0", 4); *len = 4; return 0;
	}
	*out = malloc(sizeof(mx));
	if (!*out) return -1;
	memcpy(*out, mx, sizeof(mx));
	*len = sizeof(mx);
	return 0;
}
/* SPF records of the sender / HELO domains the generators use (the same table is in ocaml/session_driver.ml: fakedns_txt) */
#include <strings.h>
static const char *zone_txt(const char *host)
{
	static const struct { const char *name, *txt; } z[] = {
		{ "example.com", "v=spf1 -all" },
		{ "example.org", "v=spf1 ip4:192.0.2.0/24 ip6:2001:db8::/32 -all" },
		{ "shop.example.net", "v=spf1 ~all" },
		{ "x.example.com", "v=spf1 ?all" },
		{ "again.example.net", "v=spf1 ip4:198.51.100.0/24 ip6:2001:db8:ffff::/48 ~all" },
	};
	const char *t = getenv("FAKEDNS_TXT");
	if (t) return t;
	for (unsigned i = 0; i < sizeof(z) / sizeof(z[0]); i++)
		if (!strcasecmp(host, z[i].name)) return z[i].txt;
	return NULL;
}
int dnstxt(char **out, const char *host)
{
	const char *t = zone_txt(host);
	*out = NULL;
	if (!t) return 0;
	*out = strdup(t);
	return *out ? 0 : -1;
}
int dnstxt_records(char **out, const char *host)
{
	const char *t = zone_txt(host);
	*out = NULL;
	if (!t) return 0;
	size_t l = strlen(t);
	*out = malloc(l + 2);
	if (!*out) return -1;
	memcpy(*out, t, l + 1);
	(*out)[l + 1] = 0;
	return 1;
}
int dnsname(char **out, const struct in6_addr *ip)
{
	(void)ip;
	*out = NULL;
	errno = ENOENT;
	return -1;
}

"""Whole-program harness for Qsmtpd (engine `session`).

Builds the real Qsmtpd from all of qsmtpd/** and lib/*.c of the repository working tree (ASan+UBSan), with only
lib/libowfatconn.c replaced by fakedns.c and sleep()/time() wrapped, and drives one process per case over a
socketpair in lock step: a chunk of client bytes is sent only when the server has consumed everything and is
blocked in poll() on its input.  AUTOQMAIL is "/proc/self/cwd", so every case has its own scratch qmail tree.

case line:  5e <cfg> <chunk> <chunk> ...        (hex fields; cfg = ascii "key=value;key=value")
result:     replies r<code>... in order (multi-line replies count once), then for every hand-off to the qmail-queue
            stand-in  Q<envelope hex>/<message hex with the date of the Received line masked; with port=587 also the
            Date: field that carries the same date>, then  open | closed
            (whether the server was still waiting for input after the last chunk).
"""
import fcntl, glob, os, shutil, signal, socket, struct, subprocess, sys, tempfile, time
from concurrent.futures import ThreadPoolExecutor

HERE = os.path.dirname(os.path.abspath(__file__))
SIOCOUTQ = 0x5411


def _cdb(path, items):
    """write a constant database (D. J. Bernstein's cdb format)"""
    def h(k):
        v = 5381
        for c in k:
            v = (((v << 5) + v) ^ c) & 0xffffffff
        return v
    recs = b''
    pos = 2048
    tables = [[] for _ in range(256)]
    for k, v in items:
        tables[h(k) & 255].append((h(k), pos))
        rec = struct.pack('<II', len(k), len(v)) + k + v
        recs += rec
        pos += len(rec)
    head, tabs = b'', b''
    for t in tables:
        n = len(t) * 2
        head += struct.pack('<II', pos, n)
        slots = [(0, 0)] * n
        for hv, p in t:
            i = (hv >> 8) % n
            while slots[i][1]:
                i = (i + 1) % n
            slots[i] = (hv, p)
        for hv, p in slots:
            tabs += struct.pack('<II', hv, p)
        pos += 8 * n
    with open(path, 'wb') as f:
        f.write(head + recs + tabs)


def build(R, repo, builddir):
    """returns handle dict or raises RuntimeError(log)"""
    os.makedirs(builddir, exist_ok=True)
    inc = os.path.join(builddir, 'inc')
    os.makedirs(inc, exist_ok=True)
    open(os.path.join(inc, 'qmaildir.h'), 'w').write('#define AUTOQMAIL "/proc/self/cwd"\n')
    shutil.copy(os.path.join(R.VERIF, 'harness', 'inc', 'version.h'), os.path.join(inc, 'version.h'))
    srcs = sorted(glob.glob(os.path.join(repo, 'qsmtpd', '*.c')) + glob.glob(os.path.join(repo, 'qsmtpd', 'filters', '*.c')) +
                  glob.glob(os.path.join(repo, 'qsmtpd', 'backends', 'auth_chkpw', '*.c')) +
                  glob.glob(os.path.join(repo, 'qsmtpd', 'backends', 'user_vpopm', '*.c')))
    srcs += [f for f in sorted(glob.glob(os.path.join(repo, 'lib', '*.c')))
             if os.path.basename(f) not in ('ipme.c', 'libowfatconn.c', 'qdns_dane.c')]
    srcs += [os.path.join(HERE, 'fakedns.c'), os.path.join(HERE, 'wraps.c')]
    cflags = ['-std=gnu99', '-O1', '-g', '-fsanitize=address,undefined', '-fno-sanitize-recover=all', '-fno-omit-frame-pointer',
              '-D_GNU_SOURCE', '-D_FILE_OFFSET_BITS=64', '-DHAS_PIPE2', '-DNOSTDERR', '-DNDEBUG', '-w', '-I' + inc,
              '-I' + os.path.join(repo, 'include')]
    objs, logs = [], []

    def cc(src):
        o = os.path.join(builddir, os.path.basename(os.path.dirname(src)) + '_' + os.path.basename(src)[:-2] + '.o')
        rc, out = R.sh(['gcc'] + cflags + ['-c', src, '-o', o], timeout=300)
        return o, rc, out
    with ThreadPoolExecutor(16) as ex:
        for o, rc, out in ex.map(cc, srcs):
            objs.append(o)
            if rc != 0:
                logs.append(out)
    if logs:
        raise RuntimeError('\n'.join(logs)[-3000:])
    exe = os.path.join(builddir, 'Qsmtpd')
    rc, out = R.sh(['gcc', '-fsanitize=address,undefined'] + objs + ['-Wl,--wrap=sleep', '-Wl,--wrap=time', '-Wl,--wrap=gettimeofday', '-Wl,--wrap=poll', '-Wl,--wrap=waitpid',
                                                                      '-o', exe, '-lssl', '-lcrypto'], timeout=300)
    if rc != 0:
        raise RuntimeError(out[-3000:])
    qq = os.path.join(builddir, 'qq_standin')
    rc, out = R.sh(['gcc', '-O1', '-w', os.path.join(HERE, 'qq_standin.c'), '-o', qq], timeout=120)
    if rc != 0:
        raise RuntimeError(out[-3000:])
    cp = os.path.join(builddir, 'cp_standin')
    rc, out = R.sh(['gcc', '-O1', '-w', os.path.join(HERE, 'cp_standin.c'), '-o', cp], timeout=120)
    if rc != 0:
        raise RuntimeError(out[-3000:])
    return dict(exe=exe, qq=qq, cp=cp, builddir=builddir)


def parse_cfg(s):
    cfg = dict(relay='none', ip='v4', databytes='0', port='25', users='cdb', qq='', auth='0', check2822='0', lip='2')
    for kv in s.split(';'):
        if '=' in kv:
            k, v = kv.split('=', 1)
            cfg[k] = v
    return cfg


def make_tree(d, cfg):
    os.makedirs(os.path.join(d, 'control'))
    os.makedirs(os.path.join(d, 'queue'))
    os.makedirs(os.path.join(d, 'users'))
    open(os.path.join(d, 'control', 'me'), 'w').write('mail.example.org\n')
    open(os.path.join(d, 'control', 'timeoutsmtpd'), 'w').write('1000\n')
    open(os.path.join(d, 'control', 'msgidhost'), 'w').write('msgid.example.org\n')       # host part of a Message-Id added on port 587: not control/me
    open(os.path.join(d, 'control', 'rcpthosts'), 'w').write('example.org\n.sub.example.org\n')
    if cfg['check2822'] == '1':
        open(os.path.join(d, 'control', 'filterconf'), 'w').write('check_strict_rfc2822\n')
    if cfg['databytes'] != '0':
        open(os.path.join(d, 'control', 'databytes'), 'w').write(cfg['databytes'] + '\n')
    r = cfg['relay']
    name = 'relayclients' if cfg['ip'] == 'v4' else 'relayclients6'
    alen = 4 if cfg['ip'] == 'v4' else 16
    mine = bytes([192, 0, 2, 1]) if cfg['ip'] == 'v4' else bytes.fromhex('20010db8000000000000000000000001')
    other = bytes([198, 51, 100, 0]) if cfg['ip'] == 'v4' else bytes.fromhex('20010db8ffff00000000000000000000')
    p = os.path.join(d, 'control', name)
    opfx = 24 if cfg['ip'] == 'v4' else 48
    if r == 'listed':
        open(p, 'wb').write(other + bytes([opfx]) + mine[:alen - 1] + b'\0' + bytes([8 * alen - 8]))
    elif r == 'unlisted':
        open(p, 'wb').write(other + bytes([opfx]))
    elif r == 'badsize':
        open(p, 'wb').write(mine + bytes([8 * alen]) + b'\x01')              # size not a multiple of the record size
    elif r == 'badprefix':
        open(p, 'wb').write(other + bytes([3]) + mine + bytes([8 * alen]))    # invalid prefix length before a matching record
    elif r == 'unreadable':
        os.makedirs(p)                                                        # open() succeeds, mmap/flock of a directory fails
    if cfg['users'] == 'cdb':
        dom = os.path.join(d, 'domains', 'example.org')
        os.makedirs(os.path.join(dom, 'alice'))
        os.makedirs(os.path.join(dom, 'bob'))
        open(os.path.join(dom, '.qmail-list'), 'w').write('|true\n')
        _cdb(os.path.join(d, 'users', 'cdb'), [(b'!example.org-', b'example.org\0' b'89\0' b'89\0' + b'domains/example.org' + b'\0-\0\0')])
    plan = os.path.join(d, 'qqplan')
    open(plan, 'w').write('\n'.join(x for x in cfg['qq'].split(',') if x) + '\n')


def _idle(pid, sock):
    try:
        q = struct.unpack('i', fcntl.ioctl(sock.fileno(), SIOCOUTQ, b'\0\0\0\0'))[0]
        if q != 0:
            return False
        st = open('/proc/%d/stat' % pid).read()
        state = st[st.rindex(')') + 2]
        if state != 'S':
            return False
        sc = open('/proc/%d/syscall' % pid).read().split()
        return sc[0] in ('7', '271') and int(sc[1], 16) != 0 and True
    except (OSError, ValueError, IndexError):
        return False


def _children(pid):
    try:
        return open('/proc/%d/task/%d/children' % (pid, pid)).read().split()
    except OSError:
        return []


def run_case(h, R, line, idx):
    f = line.split()
    cfg = parse_cfg(R.unhx(f[1]).decode('latin-1'))
    chunks = [R.unhx(x) for x in f[2:]]
    d = tempfile.mkdtemp(prefix='c%d_' % idx, dir=os.path.join(h['builddir'], 'run'))
    try:
        make_tree(d, cfg)
        env = dict(R.RUNENV)
        if cfg['ip'] == 'v4':
            env.update(TCP6REMOTEIP='::ffff:192.0.2.1', TCP6LOCALIP='::ffff:192.0.2.' + cfg['lip'])
        else:
            env.update(TCP6REMOTEIP='2001:db8::1', TCP6LOCALIP='2001:db8::2')
        qqbin = h['qq']
        if cfg.get('qqexec') == '0':
            # $QMAILQUEUE cannot be executed: the child ends in _exit(120); whether queue_init() sees that is forced by the plan (ns / nh)
            qqbin = os.path.join(d, 'notexecutable')
            open(qqbin, 'w').write('#!/bin/sh\nexit 0\n')
            os.chmod(qqbin, 0o644)
        env.update(TCPREMOTEPORT='1234', TCPLOCALPORT=cfg['port'], QMAILQUEUE=qqbin, QQ_MSG=os.path.join(d, 'qq.msg'),
                   QQ_ENV=os.path.join(d, 'qq.env'), QQ_PLAN=os.path.join(d, 'qqplan'), QQ_COUNT=os.path.join(d, 'qqcount'))
        a, b = socket.socketpair()
        errf = open(os.path.join(d, 'stderr'), 'wb')
        argv = [h['exe']] + (['mail.example.org', h['cp'], '/bin/true'] if cfg['auth'] == '1' else [])      # auth_setup(): domain, checkpassword, subprogram
        p = subprocess.Popen(argv, stdin=b.fileno(), stdout=b.fileno(), stderr=errf, cwd=d, env=env, close_fds=True)
        b.close()
        a.setblocking(False)
        out = b''
        closed = False

        def pump(deadline):
            nonlocal out, closed
            stable = 0
            while time.time() < deadline:
                try:
                    data = a.recv(65536)
                    if data == b'':
                        closed = True
                        return
                    out += data
                    stable = 0
                    continue
                except BlockingIOError:
                    pass
                except ConnectionResetError:
                    closed = True
                    return
                if p.poll() is not None:
                    # drain what is left
                    try:
                        while True:
                            data = a.recv(65536)
                            if not data:
                                break
                            out += data
                    except (BlockingIOError, ConnectionResetError):
                        pass
                    closed = True
                    return
                if _idle(p.pid, a):
                    stable += 1
                    if stable >= 2:
                        return
                else:
                    stable = 0
                time.sleep(0.0003)
            raise TimeoutError()
        timed_out = False
        try:
            pump(time.time() + 20)
            plan = [x for x in cfg['qq'].split(',') if x]
            seen354 = 0
            for c in chunks:
                if closed:
                    break
                # a qmail-queue stand-in that is planned to die before it has read the message must be gone before the data
                # arrives, otherwise "is the pipe already broken when the first line is written" would be a race
                n354 = out.count(b'\r\n354 ') + (1 if out.startswith(b'354 ') else 0)
                if n354 > seen354:
                    k = n354 - 1
                    seen354 = n354
                    # an invocation that queue_init() sees dead ("ns") gets no 354: the j-th 354 belongs to the j-th other entry
                    live = [x for x in plan if x != 'ns']
                    pl = live[k] if k < len(live) else 'ok'
                    early = pl.startswith('die:b') or (pl.startswith('die:m:') and int(pl.split(':')[2]) <= 150)
                    if early:
                        t_end = time.time() + 3
                        while _children(p.pid) and time.time() < t_end:
                            time.sleep(0.0005)
                    elif pl.startswith('ce:'):
                        # the stand-in closes its envelope descriptor first thing: wait until it has done so (or is gone),
                        # otherwise "did the envelope still fit into the pipe before the close" would be a race
                        t_end = time.time() + 3
                        while time.time() < t_end:
                            ch = _children(p.pid)
                            if not ch:
                                break
                            try:
                                exe = os.readlink('/proc/%s/exe' % ch[0])
                                if exe.endswith('qq_standin') and not os.path.exists('/proc/%s/fd/1' % ch[0]):
                                    break
                            except OSError:
                                pass
                            time.sleep(0.0005)
                try:
                    a.setblocking(True)
                    a.sendall(c)
                    a.setblocking(False)
                except (BrokenPipeError, ConnectionResetError):
                    closed = True
                    break
                pump(time.time() + 20)
        except TimeoutError:
            timed_out = True
        state = 'closed' if closed else 'open'
        if os.environ.get('SESSION_DUMP'):                 # debugging aid: the raw replies of the case
            open(os.environ['SESSION_DUMP'], 'ab').write(out + b'\n=====\n')
        a.close()
        try:
            p.wait(timeout=10)
        except subprocess.TimeoutExpired:
            p.kill(); p.wait()
            timed_out = True
        errf.close()
        res = []
        for l in out.split(b'\r\n'):
            if len(l) >= 4 and l[:3].isdigit() and l[3:4] == b' ':
                res.append('r' + l[:3].decode())
            elif len(l) >= 4 and l[:3].isdigit() and l[3:4] == b'-':
                pass
            elif l:
                res.append('x' + l[:8].hex())
        def recs(path):
            r = []
            if os.path.exists(path):
                data = open(path, 'rb').read()
                i = 0
                while i < len(data):
                    n = int(data[i:i + 8], 16)
                    r.append(data[i + 9:i + 9 + n])
                    i += 9 + n + 1
            return r
        for e, m in zip(recs(env['QQ_ENV']), recs(env['QQ_MSG'])):
            res.append('Q' + R.hx(e) + '/' + R.hx(mask_date(m, cfg['port'] == '587')))
        stderr = open(os.path.join(d, 'stderr'), 'rb').read()
        if b'ERROR: AddressSanitizer' in stderr or b'runtime error' in stderr:
            return 'CRASH'
        if timed_out:
            return 'TIMEOUT ' + ' '.join(res)
        if p.returncode is not None and p.returncode < 0 and p.returncode != -signal.SIGPIPE:
            res.append('sig%d' % -p.returncode)
        res.append(state)
        return ' '.join(res)
    finally:
        shutil.rmtree(d, ignore_errors=True)


def mask_date(m, subm=False):
    """the Received: line ends in '>; ' + 31 characters of date + LF; replace the date by 31 'D'.
    On the submission port (subm) a line 'Date: ' + that very date is masked as well: it is the field the server adds from the
    same buffer (a Date: line with any other content stays as it is, so a differing date shows as a disagreement)."""
    i = m.find(b'>; ')
    while i >= 0:
        if len(m) >= i + 35 and m[i + 34:i + 35] == b'\n':
            date = m[i + 3:i + 34]
            out = m[:i + 3] + b'D' * 31 + m[i + 34:]
            if subm:
                out = out.replace(b'\nDate: ' + date + b'\n', b'\nDate: ' + b'D' * 31 + b'\n')
            return out
        i = m.find(b'>; ', i + 1)
    return m


def run(h, R, cases, workers=16):
    os.makedirs(os.path.join(h['builddir'], 'run'), exist_ok=True)
    with ThreadPoolExecutor(workers) as ex:
        return list(ex.map(lambda ic: run_case(h, R, ic[1], ic[0]), enumerate(cases)))

/* qmail-queue stand-in: records what it reads from fd 0 (message) and fd 1 (envelope) into the files named by
 * QQ_MSG / QQ_ENV (appending one record per invocation: 8 hex digits length, ':' , bytes, '\n').
 * Behaviour per invocation from the QQ_PLAN file (line k for the k-th invocation, counter in QQ_COUNT):
 *   ok | exit:<code> | ce:<how> | die:<phase>:<n>:<how>   with phase m (message) / e (envelope): after reading n bytes of that stream,
 *   b = before reading anything (30 ms after start, so that queue_init() has returned), a = after reading everything but before recording; how = exit code 0..255 or "sig" (SIGKILL). */
#include <stdio.h>
#include <stdlib.h>
#include <string.h>
#include <signal.h>
#include <unistd.h>
#include <fcntl.h>

static void die(const char *how) { if (!strcmp(how, "sig")) { kill(getpid(), SIGKILL); } _exit(atoi(how)); }

static void record(const char *var, const char *buf, size_t len)
{
	const char *fn = getenv(var);
	if (!fn) return;
	int fd = open(fn, O_WRONLY | O_CREAT | O_APPEND, 0644);
	if (fd < 0) return;
	char hdr[16]; snprintf(hdr, sizeof(hdr), "%08zx:", len);
	write(fd, hdr, 9); write(fd, buf, len); write(fd, "\n", 1);
	close(fd);
}

static char *slurp(int fd, size_t *len, long limit, const char *how)
{
	size_t cap = 1 << 16, n = 0; char *b = malloc(cap);
	for (;;) {
		if (limit >= 0 && n >= (size_t)limit) die(how);
		size_t want = cap - n;
		if (limit >= 0 && want > (size_t)limit - n) want = limit - n;
		ssize_t r = read(fd, b + n, want);
		if (r < 0) _exit(54);
		if (r == 0) break;
		n += r;
		if (n == cap) { cap *= 2; b = realloc(b, cap); }
	}
	*len = n;
	return b;
}

int main(void)
{
	char phase = 0; long n = -1; char how[16] = "0";
	char planline[64] = "";
	int exitcode = 0;
	/* QQ_PLAN: one line per invocation ("ok" | "exit:<code>" | "die:<phase>:<n>:<how>"); QQ_COUNT: invocation counter file */
	const char *plan = getenv("QQ_PLAN"), *cnt = getenv("QQ_COUNT");
	if (plan && cnt) {
		int k = 0; FILE *f = fopen(cnt, "r");
		if (f) { fscanf(f, "%d", &k); fclose(f); }
		f = fopen(cnt, "w"); if (f) { fprintf(f, "%d\n", k + 1); fclose(f); }
		f = fopen(plan, "r");
		if (f) { for (int i = 0; i <= k; i++) if (!fgets(planline, sizeof(planline), f)) { planline[0] = 0; break; } fclose(f); }
	}
	/* ns / nh: gone at once, before anything is read (what queue_init() makes of it is forced in harness/session/wraps.c) */
	if (!strncmp(planline, "ns", 2) || !strncmp(planline, "nh", 2)) _exit(0);
	if (!strncmp(planline, "exit:", 5)) exitcode = atoi(planline + 5);
	if (!strncmp(planline, "die:", 4)) { phase = planline[4]; sscanf(planline + 5, ":%ld:%15s", &n, how); }
	/* ce:<how>: close the envelope descriptor at once (the server's envelope write then fails with EPIPE for sure),
	 * read the whole message, end with <how> */
	if (!strncmp(planline, "ce:", 3)) { phase = 'c'; sscanf(planline + 3, "%15s", how); close(1); }
	/* dying at once would race with the WNOHANG check in queue_init(); wait until the server has passed it */
	if (phase == 'b') { usleep(30000); die(how); }
	size_t ml, el;
	char *m = slurp(0, &ml, phase == 'm' ? n : -1, how);
	if (phase == 'c') die(how);
	char *e = slurp(1, &el, phase == 'e' ? n : -1, how);
	if (phase == 'a') die(how);
	/* like qmail-queue: an envelope that is not F<sender>\0 (T<recipient>\0)* \0 is refused with exit code 91 */
	if (el < 3 || e[0] != 'F' || e[el - 1] != 0 || e[el - 2] != 0)
		return 91;
	if (exitcode == 0) {	/* only an accepted hand-off is recorded */
		record("QQ_MSG", m, ml);
		record("QQ_ENV", e, el);
	}
	return exitcode;
}

/* stand-in for checkpassword: reads "user\0pass\0[resp]\0" from fd 3.
 * exit 0 if the password is "secret", killed by a signal for user "crash" (-> 454), exit 1 otherwise. */
#include <signal.h>
#include <string.h>
#include <unistd.h>
int main(void)
{
	char buf[4096];
	size_t n = 0;
	ssize_t r;
	while (n < sizeof(buf) - 1 && (r = read(3, buf + n, sizeof(buf) - 1 - n)) > 0)
		n += (size_t)r;
	buf[n] = 0;
	const char *user = buf;
	const char *pass = (strlen(user) + 1 < n) ? user + strlen(user) + 1 : "";
	if (strcmp(user, "crash") == 0) {
		signal(SIGABRT, SIG_DFL);
		raise(SIGABRT);
	}
	return strcmp(pass, "secret") == 0 ? 0 : 1;
}

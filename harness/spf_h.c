/* C side of the `spf` engine: the real qsmtpd/spf.c (included, statics reachable),
 * lib/match.c, lib/dns_helpers.c, lib/fmt.c and qsmtpd/antispam.c (dotip6), with the
 * resolver entry points used by spf.c (dnstxt_records, ask_dnsa, ask_dnsaaaa,
 * ask_dnsmx, ask_dnsname) answered from the zone carried by the case.
 *
 *   c1 <domain> <ip16> <iptext> <mailfrom> <helo> <remotehost> <heloname> <zone entry>...
 *        check_host(domain)
 *        -> R<rc> M<mechanism|-> E<hex spfexp|-> Q[ <k><hex name>]... V <hex Received-SPF | ->
 *
 * zone entry (first byte = kind):
 *   'T' name 00 (record 00)*                TXT answer (dnstxt_records returns the number of records)
 *   't' name 00 code                        TXT error: 1 ENOENT 2 ETIMEDOUT 3 EINVAL 4 ENOMEM 5 EIO 6 ECONNREFUSED 7 EAGAIN 8 EPERM
 *   'A' name 00 (addr16)*   'a' name 00 c   ask_dnsa: addresses / error c (1,2,3 -> DNS_ERROR_LOCAL, _TEMP, _PERM)
 *   '6' name 00 (addr16)*   '7' name 00 c   ask_dnsaaaa
 *   'M' name 00 (prio4 cnt1 addr16*cnt)*    ask_dnsmx list;  'm' name 00 c : 1,2,3 errors, 4 -> 1 (no host), 5 -> 2 (null MX)
 *   'N' ip16 (name 00)*     'n' ip16 c      ask_dnsname
 * Names not in the zone: TXT -> ENOENT, A/AAAA -> 0, MX -> 1, NAME -> 0.
 */
#include "hcommon.h"
#include <unistd.h>
#include <time.h>
#include <arpa/inet.h>
#include <netinet/in.h>

static ssize_t h_write(int fd, const void *buf, size_t n);
static time_t h_time(time_t *t) { if (t) *t = 1234567890; return 1234567890; }
#define write(a,b,c) h_write(a,b,c)
#define time(x) h_time(x)
#include "qsmtpd/spf.c"
#undef write
#undef time
#include "lib/match.c"
#include "lib/dns_helpers.c"
#include "lib/fmt.c"

/* dotip6() of qsmtpd/antispam.c: the whole file is included (its other functions are renamed
 * out of the way and never called; what they reference is stubbed below). */
#define check_rbl h_unused_check_rbl
#define tarpit h_unused_tarpit
#define domainmatch h_unused_domainmatch
#define lookupipbl h_unused_lookupipbl
#include "qsmtpd/antispam.c"
#undef check_rbl
#undef tarpit
#undef domainmatch
#undef lookupipbl

struct xmitstat xmitstat;
string heloname;
SSL *ssl;
int socketd = 5;
time_t timeout = 1;
void dieerror(int e) { (void)e; abort(); }
void log_write(int p, const char *s) { (void)p; (void)s; }
void log_writen(int p, const char **s) { (void)p; (void)s; }
int data_pending(SSL *s) { (void)s; abort(); }
void *mmap_fd(int fd, off_t *len) { (void)fd; (void)len; abort(); }

/* ---- output capture of spfreceived ---- */
static char *w_buf; static size_t w_len, w_cap;
static ssize_t h_write(int fd, const void *buf, size_t n)
{
	(void)fd;
	if (n == 0) return 0;
	if (w_len + n + 1 > w_cap) { w_cap = (w_len + n + 1) * 2 + 256; w_buf = realloc(w_buf, w_cap); }
	memcpy(w_buf + w_len, buf, n); w_len += n;
	return n;
}

/* ---- zone ---- */
static int z_n; static struct field *z_f;
static void qlog(char k, const void *name, size_t len)
{
	char b[3] = { ' ', k, 0 };
	out_str(b);
	out_hex(name, len);
}
/* entry of kind k1 or k2 whose key (len bytes) matches; returns pointer to payload and its length */
static const unsigned char *zfind(char k1, char k2, const void *key, size_t klen, int nulkey, size_t *plen, char *kind)
{
	for (int i = 0; i < z_n; i++) {
		const unsigned char *p = z_f[i].p; size_t l = z_f[i].len;
		if (l < 1 || (p[0] != (unsigned char)k1 && p[0] != (unsigned char)k2)) continue;
		if (nulkey) {
			const unsigned char *e = memchr(p + 1, 0, l - 1);
			if (!e) continue;
			if ((size_t)(e - (p + 1)) != klen || memcmp(p + 1, key, klen)) continue;
			*plen = l - 1 - klen - 1; *kind = p[0];
			return e + 1;
		} else {
			if (l - 1 < klen || memcmp(p + 1, key, klen)) continue;
			*plen = l - 1 - klen; *kind = p[0];
			return p + 1 + klen;
		}
	}
	return NULL;
}
static int errcode(const unsigned char *pl, size_t plen)
{
	int c = plen ? pl[0] : 0;
	return c == 1 ? DNS_ERROR_LOCAL : c == 2 ? DNS_ERROR_TEMP : DNS_ERROR_PERM;
}

int dnstxt_records(char **out, const char *host)
{
	size_t plen; char kind;
	qlog('T', host, strlen(host));
	const unsigned char *pl = zfind('T', 't', host, strlen(host), 1, &plen, &kind);
	*out = NULL;
	if (!pl) { errno = ENOENT; return -1; }
	if (kind == 't') {
		static const int errs[] = { EPERM, ENOENT, ETIMEDOUT, EINVAL, ENOMEM, EIO, ECONNREFUSED, EAGAIN, EPERM };
		int c = plen ? pl[0] : 0;
		errno = errs[c <= 8 ? c : 0];
		return -1;
	}
	/* records: each terminated by 00; a trailing piece without 00 is terminated here */
	int n = 0; size_t need = plen + 1;
	for (size_t i = 0; i < plen; i++) if (pl[i] == 0) n++;
	if (plen && pl[plen - 1] != 0) n++;
	if (n == 0) return 0;
	size_t sz = (plen && pl[plen - 1] != 0) ? need : plen;
	char *b = malloc(sz);		/* exact size: over-reads hit the ASan redzone */
	memcpy(b, pl, plen);
	if (sz > plen) b[plen] = 0;
	*out = b;
	return n;
}
int dnstxt(char **out, const char *host) { (void)out; (void)host; abort(); }

static int addrs(const unsigned char *pl, size_t plen, struct in6_addr **res)
{
	int n = plen / 16;
	if (n == 0) return 0;
	if (res) {
		*res = malloc(n * sizeof(**res));
		memcpy(*res, pl, n * 16);
	}
	return n;
}
int ask_dnsa(const char *name, struct in6_addr **res)
{
	size_t plen; char kind;
	qlog('A', name, strlen(name));
	if (res) *res = NULL;
	const unsigned char *pl = zfind('A', 'a', name, strlen(name), 1, &plen, &kind);
	if (!pl) return 0;
	if (kind == 'a') { errno = ENOMEM; return errcode(pl, plen); }
	return addrs(pl, plen, res);
}
int ask_dnsaaaa(const char *name, struct in6_addr **res)
{
	size_t plen; char kind;
	qlog('6', name, strlen(name));
	*res = NULL;
	const unsigned char *pl = zfind('6', '7', name, strlen(name), 1, &plen, &kind);
	if (!pl) return 0;
	if (kind == '7') { errno = ENOMEM; return errcode(pl, plen); }
	return addrs(pl, plen, res);
}
int ask_dnsmx(const char *name, struct ips **res)
{
	size_t plen; char kind;
	qlog('M', name, strlen(name));
	*res = NULL;
	const unsigned char *pl = zfind('M', 'm', name, strlen(name), 1, &plen, &kind);
	if (!pl) return 1;
	if (kind == 'm') {
		int c = plen ? pl[0] : 0;
		if (c == 4) return 1;
		if (c == 5) return 2;
		errno = ENOMEM;
		return errcode(pl, plen);
	}
	struct ips *head = NULL, **tail = &head;
	size_t o = 0;
	while (o + 5 <= plen) {
		unsigned prio = ((unsigned)pl[o] << 24) | (pl[o + 1] << 16) | (pl[o + 2] << 8) | pl[o + 3];
		unsigned cnt = pl[o + 4];
		o += 5;
		if (cnt == 0 || o + 16 * cnt > plen) break;
		struct ips *u = calloc(1, sizeof(*u));
		u->addr = malloc(cnt * sizeof(*u->addr));
		memcpy(u->addr, pl + o, 16 * cnt);
		u->count = cnt; u->priority = prio; u->name = NULL; u->next = NULL;
		*tail = u; tail = &u->next;
		o += 16 * cnt;
	}
	*res = head;
	return 0;
}
int ask_dnsname(const struct in6_addr *ip, char **res)
{
	size_t plen; char kind;
	qlog('N', ip, 16);
	const unsigned char *pl = zfind('N', 'n', ip, 16, 0, &plen, &kind);
	if (!pl) return 0;
	if (kind == 'n') { errno = ENOMEM; return errcode(pl, plen); }
	int n = 0;
	for (size_t i = 0; i < plen; i++) if (pl[i] == 0) n++;
	size_t sz = plen;
	if (plen && pl[plen - 1] != 0) { n++; sz++; }
	if (n == 0) return 0;
	char *b = malloc(sz);
	memcpy(b, pl, plen);
	if (sz > plen) b[plen] = 0;
	*res = b;
	return n;
}

static char *dupz(struct field *f)
{
	char *c = malloc(f->len + 1);
	memcpy(c, f->p, f->len); c[f->len] = 0;
	return c;
}

static void run_case(int nf, struct field *f)
{
	if (nf < 8 || f[0].len != 1 || f[0].p[0] != 0xc1 || f[2].len != 16) { out_str("BADCASE"); return; }
	for (int i = 1; i < 8; i++)
		if (i != 2 && memchr(f[i].p, 0, f[i].len)) { out_str("BADCASE"); return; }
	memset(&xmitstat, 0, sizeof(xmitstat));
	memcpy(&xmitstat.sremoteip, f[2].p, 16);
	xmitstat.ipv4conn = IN6_IS_ADDR_V4MAPPED(&xmitstat.sremoteip) ? 1 : 0;
	{
		char t[INET6_ADDRSTRLEN];
		if (xmitstat.ipv4conn) inet_ntop(AF_INET, &xmitstat.sremoteip.s6_addr32[3], t, sizeof(t));
		else inet_ntop(AF_INET6, &xmitstat.sremoteip, t, sizeof(t));
		if (strlen(t) != f[3].len || memcmp(t, f[3].p, f[3].len)) { out_str("BADCASE iptext"); return; }
	}
	/* a non-empty sender is local@domain with both parts non-empty (addrsyntax() guarantees it) */
	if (f[4].len) {
		const unsigned char *at = memchr(f[4].p, '@', f[4].len);
		if (!at || at == f[4].p || at == f[4].p + f[4].len - 1) { out_str("BADCASE"); return; }
	}
	if (f[5].len == 0 && f[6].len == 0) { out_str("BADCASE"); return; }
	char *dom = dupz(&f[1]);
	xmitstat.mailfrom.s = f[4].len ? dupz(&f[4]) : NULL; xmitstat.mailfrom.len = f[4].len;
	xmitstat.helostr.s = f[5].len ? dupz(&f[5]) : NULL; xmitstat.helostr.len = f[5].len;
	xmitstat.remotehost.s = f[6].len ? dupz(&f[6]) : NULL; xmitstat.remotehost.len = f[6].len;
	heloname.s = dupz(&f[7]); heloname.len = f[7].len;
	z_n = nf - 8; z_f = f + 8;
	out_str("Q");
	int rc = check_host(dom);
	out_str(" R"); out_int(rc);
	out_str(" M"); out_str(xmitstat.spfmechanism ? xmitstat.spfmechanism : "-");
	out_str(" E");
	if (xmitstat.spfexp) out_hex(xmitstat.spfexp, strlen(xmitstat.spfexp)); else out_str("NULL");
	out_str(" V ");
	if (rc >= 0) {
		w_len = 0;
		int r = spfreceived(1, rc & 0x0f);
		if (r != 0) out_str("ERR"); else out_hex(w_buf, w_len);
	} else out_str("NONE");
}

int main(void) { return harness_main(); }

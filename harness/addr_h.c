/* C side of the `addr` engine: the real address parsers (files included, so the
 * statics parselocalpart()/parseaddr() are reachable).
 *
 *   d0                  ->  K <INET_ADDRSTRLEN> <INET6_ADDRSTRLEN> <1 if char is signed>
 *   d1 <host>           ->  D <domainvalid(host)>
 *   d2 <addr>           ->  L <parselocalpart(addr)>
 *   d3 <addr>           ->  P <parseaddr(addr)> <checkaddr(addr)> <addrspec_valid(addr)>
 *   d4 <flags> <in>     ->  A <addrsyntax()> <addr: hex | U = untouched> <more - in | -1> <line buffer afterwards>
 *   d5 <str>            ->  X <xtextlen(str)>
 *   d6 <flags> <in>     ->  R <ACCEPT|REJECT|OTHER> ...   addrparse() with finddomain()/user_exists() stubbed
 *
 * Every string argument is the field's bytes plus a terminating NUL.  It is
 * placed (a) at the end of a page that is followed by a PROT_NONE page and
 * (b) in an exact-size malloc block (ASan red zone): a read past the
 * terminator or a write outside the line is a CRASH.  Both runs must agree.
 */
#include "hcommon.h"
#include <limits.h>
#include <unistd.h>

#include "lib/dns_helpers.c"
#include "qsmtpd/addrsyntax.c"
#include "qsmtpd/xtext.c"

/* ---- addrparse() with its environment stubbed ---- */
#include <qsmtpd/qsmtpd.h>
#include <qsmtpd/antispam.h>
#include <qsmtpd/userconf.h>
#include <control.h>
#include <netio.h>
static int h_netwrite(const char *s);
static int h_net_writen(const char *const *s);
static int h_finddomain(const char *buf, const off_t size, const char *domain);
static int h_user_exists(const string *localpart, const char *domain, struct userconf *ds);
static void h_tarpit(void) { }
#define netwrite(s) h_netwrite(s)
#define net_writen(s) h_net_writen(s)
#define finddomain(a,b,c) h_finddomain(a,b,c)
#define user_exists(a,b,c) h_user_exists(a,b,c)
#define tarpit() h_tarpit()
#include "qsmtpd/addrparse.c"
#undef netwrite
#undef net_writen
#undef finddomain
#undef user_exists
#undef tarpit
struct xmitstat xmitstat;
string liphost;
static char h_reply[4];
static int h_netwrite(const char *s) { memcpy(h_reply, s, 3); h_reply[3] = 0; errno = 0; return 0; }
static int h_net_writen(const char *const *s) { memcpy(h_reply, s[0], 3); h_reply[3] = 0; return 0; }
static int h_finddomain(const char *buf, const off_t size, const char *domain) { (void)buf; (void)size; (void)domain; return 0; }
static int h_user_exists(const string *localpart, const char *domain, struct userconf *ds) { (void)localpart; (void)domain; (void)ds; return 1; }

static char *g_buf; static size_t g_len;
static char *copy_guard(const struct field *f)
{
	g_len = f->len + 1;
	g_buf = guard_alloc(g_len);
	memcpy(g_buf, f->p, f->len);
	g_buf[f->len] = 0;
	return g_buf;
}
static char *copy_heap(const struct field *f)
{
	char *c = malloc(f->len + 1);
	memcpy(c, f->p, f->len);
	c[f->len] = 0;
	return c;
}

struct asobs { int rc; string addr; long more; };
static char untouched[1];
static struct asobs run_addrsyntax(char *in, int flags)
{
	struct asobs o;
	char *more = untouched;
	o.addr.s = untouched; o.addr.len = 4242;
	o.rc = addrsyntax(in, flags, &o.addr, &more);
	o.more = (more == untouched) ? -1 : more - in;
	return o;
}
static int asobs_eq(const struct asobs *a, const struct asobs *b)
{
	if (a->rc != b->rc || a->more != b->more || a->addr.len != b->addr.len) return 0;
	if ((a->addr.s == untouched) != (b->addr.s == untouched)) return 0;
	if (a->addr.s == untouched || a->addr.len == 0) return 1;
	return memcmp(a->addr.s, b->addr.s, a->addr.len) == 0;
}

static void run_case(int nf, struct field *f)
{
	if (nf < 1 || f[0].len != 1) { out_str("BADCASE"); return; }
	int op = f[0].p[0];
	if (op == 0xd0) {
		out_str("K "); out_int(INET_ADDRSTRLEN); out_str(" "); out_int(INET6_ADDRSTRLEN); out_str(" "); out_int(CHAR_MIN < 0);
		return;
	}
	if (op >= 0xd1 && op <= 0xd3 || op == 0xd5) {
		if (nf < 2) { out_str("BADCASE"); return; }
		char *g = copy_guard(&f[1]);
		char *h = copy_heap(&f[1]);
		long r1[3] = {0, 0, 0}, r2[3] = {0, 0, 0};
		int n = 1;
		switch (op) {
		case 0xd1: out_str("D"); r1[0] = domainvalid(g); r2[0] = domainvalid(h); break;
		case 0xd2: out_str("L"); r1[0] = parselocalpart(g); r2[0] = parselocalpart(h); break;
		case 0xd3: out_str("P"); n = 3;
			r1[0] = parseaddr(g); r1[1] = checkaddr(g); r1[2] = addrspec_valid(g);
			r2[0] = parseaddr(h); r2[1] = checkaddr(h); r2[2] = addrspec_valid(h); break;
		case 0xd5: out_str("X"); r1[0] = xtextlen(g); r2[0] = xtextlen(h); break;
		}
		for (int i = 0; i < n; i++) { out_str(" "); out_int(r1[i]); }
		if (memcmp(r1, r2, sizeof(r1)) != 0) out_str(" MISMATCH");
		if (memcmp(g, f[1].p, f[1].len) != 0 || g[f[1].len] != 0) out_str(" MODIFIED");
		free(h);
		guard_free(g, g_len);
		return;
	}
	if (op == 0xd4) {
		if (nf < 3 || f[1].len != 1) { out_str("BADCASE"); return; }
		int flags = f[1].p[0];
		char *g = copy_guard(&f[2]);
		char *h = copy_heap(&f[2]);
		struct asobs a = run_addrsyntax(g, flags);
		struct asobs b = run_addrsyntax(h, flags);
		out_str("A "); out_int(a.rc); out_str(" ");
		if (a.addr.s == untouched) out_str("U"); else out_hex(a.addr.s, a.addr.len);
		out_str(" "); out_int(a.more); out_str(" ");
		out_hex(g, f[2].len + 1);
		if (!asobs_eq(&a, &b) || memcmp(g, h, f[2].len + 1) != 0) out_str(" MISMATCH");
		/* the string object must be consistent: len == strlen(s) */
		if (a.addr.s != untouched && a.addr.len != 0 && strlen(a.addr.s) != a.addr.len) out_str(" BADLEN");
		if (a.addr.s != untouched) free(a.addr.s);
		if (b.addr.s != untouched) free(b.addr.s);
		free(h);
		guard_free(g, g_len);
		return;
	}
	if (op == 0xd6) {
		if (nf < 3 || f[1].len != 1) { out_str("BADCASE"); return; }
		int flags = f[1].p[0];
		char *g = copy_guard(&f[2]);
		string addr; char *more = NULL; struct userconf ds;
		STREMPTY(addr);
		memset(&ds, 0, sizeof(ds));
		memset(&xmitstat, 0, sizeof(xmitstat));
		xmitstat.localip[0] = '1'; xmitstat.localip[1] = 0;
		h_reply[0] = 0;
		errno = 0;
		int r = addrparse(g, flags, &addr, &more, &ds, "", 0);
		out_str("R ");
		if (h_reply[0] == '5' && h_reply[1] == '0' && h_reply[2] == '1') out_str("REJECT -");
		else if (r == -2 || r == 0 || (r == -1 && h_reply[0] == '5')) {
			/* -2: not local, 0: accepted/exists, -1 + 550: literal that is not our address */
			out_str("ACCEPT ");
			out_hex(addr.s, addr.len);
		} else { out_str("OTHER "); out_int(r); }
		free(addr.s);
		guard_free(g, g_len);
		return;
	}
	out_str("BADCASE");
}

int main(void) { return harness_main(); }

/* part of the `bdat` engine (C19, receiving side): the real qsmtpd/data.c:smtp_bdat (built with -DCHUNKING
 * -DINCOMING_CHUNK_SIZE=1, i.e. a 1024 byte read buffer) on top of the real net_readbin (bdat_net.c).
 * write()/writev() on the queue descriptor are captured; the queue, the recipient list and the rest of
 * Qsmtpd are stand-ins.
 *
 *   bb <cfg> <cmds> <stream> [<cuts>]
 *      cfg   = q wf wf rf mb mb mb mb : q = 1: queue_init() fails (EDONE); wf = index of the queue write() that
 *              fails with EPIPE (ffff never); rf = index of the read() that fails with EIO (ff never); mb = maxbytes
 *      cmds  = 5 octets per BDAT command: size (2, BE), flags (bit 0 = LAST), prebuffered (2, BE: that many
 *              octets of the stream are already in the line reader's buffer, as after a pipelined command)
 *      cuts  = size of each read() result (0 = 1; after the list: as much as asked for)
 *   -> per command: events (I queue_init, H header writev, Q<hex> queue write, QBADF, N<code> reply, E<n> envelope,
 *      R queue_reset, F freedata, T tarpit) then C<rc>; finally lastcr/bdaterr/comstate
 */
#include <stdio.h>
#include <stdlib.h>
#include <string.h>
#include <unistd.h>
#include <errno.h>
#include <setjmp.h>
#include <sys/uio.h>

extern void hx_out_str(const char *s);
extern void hx_out_hex(const void *p, size_t l);
extern void hx_out_int(long v);

static ssize_t rxq_write(int fd, const void *buf, size_t n);
static ssize_t rxq_writev(int fd, const struct iovec *v, int cnt);
#define write(a,b,c) rxq_write(a,b,c)
#define writev(a,b,c) rxq_writev(a,b,c)
#ifndef CHUNKING
#define CHUNKING
#endif
#ifndef INCOMING_CHUNK_SIZE
#define INCOMING_CHUNK_SIZE 1
#endif
#include "qsmtpd/data.c"
#undef write
#undef writev

#include <qsmtpd/antispam.h>

/* ---- the rest of Qsmtpd ---- */
int relayclient = 1;
unsigned long sslauth;
unsigned long databytes;
unsigned int goodrcpt;
struct xmitstat xmitstat;
const char **globalconf;
string heloname;
string msgidhost;
string liphost;
unsigned long comstate;
int authhide;
int submission_mode;
int queuefd_data = -1;
int queuefd_hdr = -1;
struct recip *thisrecip;
struct rcpt_list head;
static struct smtpcomm rx_command;
struct smtpcomm *current_command = &rx_command;

static jmp_buf rx_die;
static int rx_qinit_fail;
static long rx_wfail, rx_wcount, rx_rfail, rx_rcount;
static int rx_wferr = EPIPE;
static const unsigned char *rx_stream; static size_t rx_slen, rx_spos;
static const unsigned char *rx_cuts; static size_t rx_ncuts, rx_cut;

void dieerror(int e) { (void)e; longjmp(rx_die, 1); }
void log_writen(int p, const char **s) { (void)p; (void)s; }
pid_t fork_clean(void) { return -1; }
void tarpit(void) { hx_out_str(" T"); }
void sync_pipelining(void) { }
int spfreceived(int fd, const int spf) { (void)fd; (void)spf; return 0; }

void freedata(void)
{
	hx_out_str(" F");
	while (!TAILQ_EMPTY(&head)) {
		struct recip *l = TAILQ_FIRST(&head);
		TAILQ_REMOVE(&head, TAILQ_FIRST(&head), entries);
		free(l->to.s);
		free(l);
	}
	goodrcpt = 0;
}
void queue_reset(void)
{
	hx_out_str(" R");
	queuefd_data = -1;
	queuefd_hdr = -1;
}
int queue_init(void)
{
	hx_out_str(" I");
	if (rx_qinit_fail) return EDONE;
	queuefd_data = 200;
	queuefd_hdr = 201;
	return 0;
}
int queue_envelope(const unsigned long sz, const int chunked)
{
	hx_out_str(chunked ? " E" : " e"); hx_out_int((long)sz);
	queuefd_data = -1;
	queuefd_hdr = -1;
	freedata();
	return 0;
}
int queue_result(void)
{
	/* qmail-queue exited 0 */
	current_command->state = 0x010;
	return netwrite("250 2.5.0 accepted message for delivery\r\n") ? errno : 0;
}

static ssize_t rxq_write(int fd, const void *buf, size_t n)
{
	if (fd < 0 || fd != queuefd_data) { hx_out_str(" QBADF"); errno = EBADF; return -1; }
	if (rx_wcount++ == rx_wfail) { hx_out_str(" QFAIL"); errno = rx_wferr; return -1; }
	hx_out_str(" Q"); hx_out_hex(buf, n);
	return n;
}
static ssize_t rxq_writev(int fd, const struct iovec *v, int cnt)
{
	size_t t = 0;
	if (fd < 0 || fd != queuefd_data) { hx_out_str(" HBADF"); errno = EBADF; return -1; }
	for (int i = 0; i < cnt; i++) t += v[i].iov_len;
	hx_out_str(" H");
	return t;
}
/* network side, called from bdat_net.c */
ssize_t rx_read(int fd, void *buf, size_t n)
{
	(void)fd;
	if (rx_rcount++ == rx_rfail) { errno = EIO; return -1; }
	size_t k = (rx_cut < rx_ncuts) ? rx_cuts[rx_cut++] : n;
	if (k == 0) k = 1;
	if (k > n) k = n;
	if (k > rx_slen - rx_spos) k = rx_slen - rx_spos;
	memcpy(buf, rx_stream + rx_spos, k);
	rx_spos += k;
	return k;	/* 0 at the end of the stream: closed connection, net_readbin() dies */
}
ssize_t rx_netwrite(int fd, const void *buf, size_t n)
{
	(void)fd;
	/* a reply folded by net_writen() into several lines ("250-..."): only its final line is reported */
	if (n > 3 && ((const char *)buf)[3] == '-') return n;
	hx_out_str(" N");
	char c[4] = { 0, 0, 0, 0 };
	memcpy(c, buf, n < 3 ? n : 3);
	hx_out_str(c);
	return n;
}
extern size_t rx_buffered(void);
extern void rx_prebuffer(const unsigned char *p, size_t n);

static const char *rc_name(int rc)
{
	static char b[24];
	switch (rc) {
	case 0: return "0";
	case EDONE: return "EDONE";
	case EBOGUS: return "EBOGUS";
	case EINVAL: return "EINVAL";
	case EMSGSIZE: return "EMSGSIZE";
	case EPIPE: return "EPIPE";
	case EBADF: return "EBADF";
	case EIO: return "EIO";
	case E2BIG: return "E2BIG";
	case ENOSPC: return "ENOSPC";
	case EFBIG: return "EFBIG";
	case ENOMEM: return "ENOMEM";
	}
	snprintf(b, sizeof(b), "%d", rc);
	return b;
}

void rx_run_case(int nf, unsigned char **fp, size_t *fl)
{
	if (nf < 4 || fl[1] != 8 || fl[2] % 5 != 0) { hx_out_str("BADCASE"); return; }
	const unsigned char *cfg = fp[1];
	rx_qinit_fail = cfg[0] & 1;
	rx_wfail = cfg[1] * 256 + cfg[2]; if (rx_wfail == 0xffff) rx_wfail = -1;
	rx_rfail = cfg[3]; if (rx_rfail == 0xff) rx_rfail = -1;
	maxbytes = ((size_t)cfg[4] << 24) | (cfg[5] << 16) | (cfg[6] << 8) | cfg[7];
	rx_wcount = rx_rcount = 0; rx_wferr = EPIPE;
	rx_stream = fp[3]; rx_slen = fl[3]; rx_spos = 0;
	rx_cuts = nf > 4 ? fp[4] : NULL; rx_ncuts = nf > 4 ? fl[4] : 0; rx_cut = 0;

	/* one accepted recipient, a minimal connection description */
	memset(&xmitstat, 0, sizeof(xmitstat));
	strcpy(xmitstat.remoteip, "192.0.2.42");
	xmitstat.esmtp = 1;
	heloname.s = "testcase.example.net"; heloname.len = strlen(heloname.s);
	TAILQ_INIT(&head);
	struct recip *r = calloc(1, sizeof(*r));
	r->to.s = strdup("test@example.com"); r->to.len = strlen(r->to.s); r->ok = 1;
	TAILQ_INSERT_TAIL(&head, r, entries);
	thisrecip = r;
	goodrcpt = 1;
	comstate = 0x0040;	/* after RCPT TO */
	queuefd_data = queuefd_hdr = -1;
	timeout = 1;
	rx_prebuffer((const unsigned char *)"", 0);

	static char line[64];
	hx_out_str("OK");
	if (setjmp(rx_die) == 0) {
		for (size_t c = 0; c < fl[2] / 5; c++) {
			const unsigned char *cm = fp[2] + 5 * c;
			unsigned long size = cm[0] * 256 + cm[1];
			size_t pre = cm[3] * 256 + cm[4];
			if (rx_buffered() == 0 && pre > 0) {
				if (pre > 1001) pre = 1001;
				if (pre > rx_slen - rx_spos) pre = rx_slen - rx_spos;
				rx_prebuffer(rx_stream + rx_spos, pre);
				rx_spos += pre;
			}
			snprintf(line, sizeof(line), "BDAT %lu%s", size, (cm[2] & 1) ? " LAST" : "");
			linein.s = line; linein.len = strlen(line);
			/* the dispatcher in qsmtpd.c: BDAT is allowed in states 0x0840; .state = -1 */
			if (!(comstate & 0x0840)) { hx_out_str(" C503"); continue; }
			rx_command.state = -1;
			int rc = smtp_bdat();
			if (!rc && rx_command.state > 0) comstate = rx_command.state;
			hx_out_str(" C"); hx_out_str(rc_name(rc));
		}
		hx_out_str(" END");
	} else hx_out_str(" DIED");
	hx_out_str(" lastcr="); hx_out_int(lastcr);
	hx_out_str(" bdaterr="); hx_out_str(rc_name(bdaterr));
	hx_out_str(" comstate="); hx_out_int((long)comstate);
	hx_out_str(" rest="); hx_out_int((long)(rx_slen - rx_spos + rx_buffered()));
	while (!TAILQ_EMPTY(&head)) {
		struct recip *l = TAILQ_FIRST(&head);
		TAILQ_REMOVE(&head, TAILQ_FIRST(&head), entries);
		free(l->to.s); free(l);
	}
}

/* ---- session scripts ----
 *   bd <cfg> <script> <stream> [<cuts>]
 *      cfg    = wf wf we rf mb mb mb mb : wf = index of the queue write() that fails (ffff never) with errno we
 *               (0 EPIPE 1 ENOSPC 2 EFBIG 3 EMSGSIZE 4 E2BIG 5 ENOMEM 6 EIO); rf = index of the failing read(); mb = maxbytes
 *      script = records  op pre pre len len <len octets>  (pre = octets put into the line reader's buffer first)
 *               op 1: <octets> is a command line starting with "BDAT" (any case), given to the BDAT row of the dispatcher
 *                     (stand-in for smtploop(): mask 0x0840, line length <= 510, flags 5: blank behind the name) and so to smtp_bdat()
 *               op 2: RSET (stand-in for smtp_rset(): queue_reset() if comstate == 0x0800, freedata(), state 0x010, 250)
 *               op 3: MAIL FROM + RCPT TO accepted (stand-in: allowed in state 0x010 only; one recipient; comstate 0x0040);
 *                     <octets> = one flag octet: queue_init() of this transaction fails
 *   -> events as for bb, plus B<n> (transaction begins after n stream octets were consumed), RSET
 */
static void rx_add_recipient(void)
{
	struct recip *r = calloc(1, sizeof(*r));
	r->to.s = strdup("test@example.com"); r->to.len = strlen(r->to.s); r->ok = 1;
	TAILQ_INSERT_TAIL(&head, r, entries);
	thisrecip = r;
	goodrcpt = 1;
}

void rx_run_script(int nf, unsigned char **fp, size_t *fl)
{
	static const int errs[] = { EPIPE, ENOSPC, EFBIG, EMSGSIZE, E2BIG, ENOMEM, EIO };
	if (nf < 4 || fl[1] != 8 || fp[1][2] > 6) { hx_out_str("BADCASE"); return; }
	/* well-formed script? */
	for (size_t o = 0; o < fl[2]; ) {
		if (o + 5 > fl[2]) { hx_out_str("BADCASE"); return; }
		size_t len = fp[2][o + 3] * 256 + fp[2][o + 4];
		unsigned op = fp[2][o];
		if (op < 1 || op > 3 || o + 5 + len > fl[2] || (op == 1 && (len < 4 || strncasecmp((const char *)fp[2] + o + 5, "BDAT", 4))))
			{ hx_out_str("BADCASE"); return; }
		o += 5 + len;
	}
	const unsigned char *cfg = fp[1];
	rx_qinit_fail = 0;
	rx_wfail = cfg[0] * 256 + cfg[1]; if (rx_wfail == 0xffff) rx_wfail = -1;
	rx_wferr = errs[cfg[2]];
	rx_rfail = cfg[3]; if (rx_rfail == 0xff) rx_rfail = -1;
	maxbytes = ((size_t)cfg[4] << 24) | (cfg[5] << 16) | (cfg[6] << 8) | cfg[7];
	rx_wcount = rx_rcount = 0;
	rx_stream = fp[3]; rx_slen = fl[3]; rx_spos = 0;
	rx_cuts = nf > 4 ? fp[4] : NULL; rx_ncuts = nf > 4 ? fl[4] : 0; rx_cut = 0;

	memset(&xmitstat, 0, sizeof(xmitstat));
	strcpy(xmitstat.remoteip, "192.0.2.42");
	xmitstat.esmtp = 1;
	heloname.s = "testcase.example.net"; heloname.len = strlen(heloname.s);
	TAILQ_INIT(&head);
	thisrecip = NULL;
	goodrcpt = 0;
	comstate = 0x0010;	/* after EHLO */
	queuefd_data = queuefd_hdr = -1;
	timeout = 1;
	rx_prebuffer((const unsigned char *)"", 0);

	hx_out_str("OK");
	if (setjmp(rx_die) == 0) {
		for (size_t o = 0; o < fl[2]; ) {
			unsigned op = fp[2][o];
			size_t pre = fp[2][o + 1] * 256 + fp[2][o + 2];
			size_t len = fp[2][o + 3] * 256 + fp[2][o + 4];
			const unsigned char *pl = fp[2] + o + 5;
			o += 5 + len;
			if (rx_buffered() == 0 && pre > 0) {
				if (pre > 1001) pre = 1001;
				if (pre > rx_slen - rx_spos) pre = rx_slen - rx_spos;
				rx_prebuffer(rx_stream + rx_spos, pre);
				rx_spos += pre;
			}
			if (op == 1) {
				char *line = malloc(len + 1);
				memcpy(line, pl, len); line[len] = 0;
				linein.s = line; linein.len = len;
				int rc;
				/* qsmtpd.c:smtploop() for the row _C("BDAT", 0x0840, smtp_bdat, -1, 5) */
				if (!(comstate & 0x0840)) { hx_out_str(" C503"); free(line); continue; }
				if (linein.len > 510) rc = E2BIG;
				else if (linein.s[4] != ' ') rc = EINVAL;
				else {
					rx_command.state = -1;
					rc = smtp_bdat();
					if (!rc && rx_command.state > 0) comstate = rx_command.state;
				}
				hx_out_str(" C"); hx_out_str(rc_name(rc));
				free(line);
			} else if (op == 2) {
				/* commands.c:smtp_rset() */
				if (comstate == 0x0800) queue_reset();
				if (comstate >= 0x008) { freedata(); comstate = 0x010; }
				netwrite("250 2.0.0 ok\r\n");
				hx_out_str(" RSET");
			} else {
				if (!(comstate & 0x0018)) { hx_out_str(" C503"); continue; }
				rx_qinit_fail = len > 0 && (pl[0] & 1);
				rx_add_recipient();
				comstate = 0x0040;
				hx_out_str(" B"); hx_out_int((long)(rx_spos - rx_buffered()));
			}
		}
		hx_out_str(" END");
	} else hx_out_str(" DIED");
	hx_out_str(" lastcr="); hx_out_int(lastcr);
	hx_out_str(" bdaterr="); hx_out_str(rc_name(bdaterr));
	hx_out_str(" comstate="); hx_out_int((long)comstate);
	hx_out_str(" rest="); hx_out_int((long)(rx_slen - rx_spos + rx_buffered()));
	while (!TAILQ_EMPTY(&head)) {
		struct recip *l = TAILQ_FIRST(&head);
		TAILQ_REMOVE(&head, TAILQ_FIRST(&head), entries);
		free(l->to.s); free(l);
	}
}

/* C side of the `netio` engine: the real lib/netio.c (included, so its statics
 * are reachable) with read()/poll()/write() redirected to the case data.
 *
 *   W <s0> <part>...        net_writen({s0, part..., NULL})  ->  OK <line>...   (one field per netnwrite call)
 *   R <stream> <cuts>...    reader: net_read(1) until the stream is dead, once per <cuts> field; <cuts> = bytes, each the size of one arriving segment
 *                           ->  items  L<hex> | EINVAL | E2BIG ... DEAD
 */
#include "hcommon.h"
#include <unistd.h>
#include <poll.h>
#include <time.h>

static ssize_t h_read(int fd, void *buf, size_t n);
static ssize_t h_write(int fd, const void *buf, size_t n);
static int h_poll(struct pollfd *p, nfds_t n, int t);
#define read(a,b,c) h_read(a,b,c)
#define write(a,b,c) h_write(a,b,c)
#define poll(a,b,c) h_poll(a,b,c)
#include "lib/netio.c"
#undef read
#undef write
#undef poll

SSL *ssl;
int socketd = 5;
static jmp_buf h_die;
void dieerror(int e) { (void)e; longjmp(h_die, 1); }
void log_write(int p, const char *s) { (void)p; (void)s; }
void log_writen(int p, const char **s) { (void)p; (void)s; }
int ssl_timeoutread(SSL *s, time_t t, char *b, const int l) { (void)s; (void)t; (void)b; (void)l; abort(); }
int ssl_timeoutwrite(SSL *s, time_t t, const char *b, const int l) { (void)s; (void)t; (void)b; (void)l; abort(); }

/* ---- write capture ---- */
static int w_first;
static ssize_t h_write(int fd, const void *buf, size_t n)
{
	(void)fd;
	out_str(" ");
	out_hex(buf, n);
	return n;
}
/* ---- read schedule ---- */
static const unsigned char *r_stream; static size_t r_len, r_pos;
static const unsigned char *r_cuts; static size_t r_ncuts, r_cut;
static int h_poll(struct pollfd *p, nfds_t n, int t)
{
	(void)n; (void)t;
	if (p->events & POLLOUT) { p->revents = POLLOUT; return 1; }
	/* input: readable while bytes remain; at end of stream report hang-up (read() then returns 0) */
	p->revents = POLLIN;
	return 1;
}
static size_t r_segleft;	/* unread bytes of the current segment */
static ssize_t h_read(int fd, void *buf, size_t n)
{
	(void)fd;
	if (r_segleft == 0) {
		/* next segment arrives: its size is the next cut (0 counts as 1); after the last cut the rest is one segment */
		if (r_cut < r_ncuts) { r_segleft = r_cuts[r_cut++]; if (r_segleft == 0) r_segleft = 1; }
		else r_segleft = r_len - r_pos;
		if (r_segleft > r_len - r_pos) r_segleft = r_len - r_pos;
	}
	size_t k = r_segleft;
	if (k > n) k = n;
	memcpy(buf, r_stream + r_pos, k);
	r_pos += k;
	r_segleft -= k;
	return k;	/* 0 at end of stream: net_read() treats that as a closed connection */
}

static void run_case(int nf, struct field *f)
{
	if (nf < 2) { out_str("BADCASE"); return; }
	if (f[0].len == 1 && f[0].p[0] == 0xaa) {		/* W */
		const char **s = calloc(nf, sizeof(*s));
		for (int i = 1; i < nf; i++) {
			/* exact-size copies so ASan sees over-reads of the parts */
			char *c = malloc(f[i].len + 1);
			memcpy(c, f[i].p, f[i].len); c[f[i].len] = 0;
			s[i - 1] = c;
		}
		s[nf - 1] = NULL;
		out_str("OK");
		if (setjmp(h_die) == 0) {
			int r = net_writen(s);
			if (r != 0) out_str(" ERR");
		} else out_str(" DIED");
		for (int i = 0; i < nf - 1; i++) free((void *)s[i]);
		free(s);
	} else if (f[0].len == 1 && f[0].p[0] == 0xbb) {	/* R: one reader run per schedule field */
		for (int sc = 2; sc < (nf > 2 ? nf : 3); sc++) {
			r_stream = f[1].p; r_len = f[1].len; r_pos = 0;
			r_cuts = nf > 2 ? f[sc].p : NULL; r_ncuts = nf > 2 ? f[sc].len : 0; r_cut = 0; r_segleft = 0;
			linenlen = 0; linein.len = 0;
			timeout = 1;
			if (sc > 2) out_str(" ||");
			if (setjmp(h_die) == 0) {
				int guard;
				for (guard = 0; guard < 100000; guard++) {
					int r = net_read(1);
					out_str(" ");
					if (r == 0) { out_str("L"); out_hex(linein.s, linein.len); }
					else if (errno == EINVAL) out_str("EINVAL");
					else if (errno == E2BIG) out_str("E2BIG");
					else { out_str("ERR"); out_int(errno); }
					out_str("@"); out_int((long)(linenlen + (r_len - r_pos)));
				}
				out_str(" RUNAWAY");
			} else {
				out_str(" DEAD");
			}
		}
	} else out_str("BADCASE");
	(void)w_first;
}

int main(void) { return harness_main(); }

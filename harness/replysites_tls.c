/* qsmtpd/starttls.c, unchanged; tls_out() and tls_err() are static there, so two wrappers that only pass their arguments on
 * live in this translation unit. */
#include "qsmtpd/starttls.c"
int h_tls_out(const char *s1, const char *s2) { return tls_out(s1, s2, -1); }
int h_tls_err(const char *s) { return tls_err(s); }
#include "lib/tls.c"
#include "lib/ssl_timeoutio.c"

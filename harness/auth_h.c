/* C side of the `auth` engine: the real qsmtpd/auth.c (smtp_auth, auth_plain, auth_login, authgetl …),
 * lib/base64.c, qsmtpd/child.c and the real checkpassword backend qsauth_backend_cp.c.
 * Replaced: netnwrite() (records the text, fails as scheduled), net_readline() (delivers the scheduled chunks),
 * tarpit()/sleep() (nothing), fork_clean() (plain fork), the log functions.
 *
 *   a1 <flags> <authname0> <linein> <backend: mode val> <write schedule> <read>...
 *      flags   bit0 auth host configured, bit1 control/forcesslauth set, bit2 TLS active
 *      backend mode 0: stand-in returns val; 1: returns -val; 2: writes tempnoauth, returns -EDONE (or -errno)
 *              mode 3: the real backend, child (this binary as checkpassword stand-in) exits with val
 *              mode 4: the real backend, child kills itself;  mode 5: the real backend with fault val injected, child exits 0
 *              faults: 1 wpipe, 2 fork, 3 close(pi[0]), 4/5/6 first/second/third write, 7 close(pi[1]), 8 waitpid
 *      write schedule: one byte per netwrite call, 0 = ok, e = fail with errno e
 *      read: 00 <bytes> = chunk returned by net_readline;  01 <e> = -1 with errno e;  none left = -1 with errno 104
 *   ->  A <rc> <authname> <z|nz|-> C {<user NUL> <pass NUL>} W {<text>} P {<pipe bytes>} R<reads consumed>
 */
#include "hcommon.h"
#include <unistd.h>
#include <sys/wait.h>
#include <syslog.h>

static unsigned int h_sleep(unsigned int s) { (void)s; return 0; }
#define sleep(x) h_sleep(x)
#include "lib/base64.c"
#include "qsmtpd/auth.c"
#undef sleep

/* ---- the real checkpassword backend, with the OS calls it makes under control */
static int h_fault;
static ssize_t h_write(int fd, const void *buf, size_t n);
static int h_close(int fd);
static pid_t h_waitpid(pid_t p, int *st, int fl);
#define wpipe real_wpipe
#include "qsmtpd/child.c"
#undef wpipe
#define auth_backend_execute real_auth_backend_execute
#define auth_backend_setup real_auth_backend_setup
#define write(a,b,c) h_write(a,b,c)
#define close(a) h_close(a)
#define waitpid(a,b,c) h_waitpid(a,b,c)
#define err_write be_err_write
#include "qsmtpd/backends/auth_chkpw/qsauth_backend_cp.c"
#undef err_write
#undef write
#undef close
#undef waitpid
#undef auth_backend_execute
#undef auth_backend_setup

struct xmitstat xmitstat;
unsigned long sslauth;
int controldir_fd = -1;
static char lineinbuf[1002];
struct string linein = { lineinbuf, 0 };

void tarpit(void) {}
void log_write(int p, const char *s) { (void)p; (void)s; }
void log_writen(int p, const char **s) { (void)p; (void)s; }
size_t lloadfilefd(int fd, char **buf, const int striptab) { (void)fd; (void)buf; (void)striptab; errno = ENOENT; return (size_t)-1; }
int domainvalid(const char * const d) { (void)d; return 0; }
int net_writen(const char *const *s) { (void)s; abort(); }
void userbackend_free(void) {}

/* ---- netwrite capture */
static const unsigned char *w_sched; static size_t w_n, w_i;
static char *w_log; static size_t w_len, w_cap;
static void logadd(char **b, size_t *len, size_t *cap, const char *tag, const void *p, size_t n)
{
	static const char hx[] = "0123456789abcdef";
	size_t need = *len + strlen(tag) + 2 * n + 4;
	if (need > *cap) { *cap = need * 2 + 256; *b = realloc(*b, *cap); }
	*len += sprintf(*b + *len, " %s", tag);
	if (n == 0) (*b)[(*len)++] = '-';
	for (size_t i = 0; i < n; i++) { (*b)[(*len)++] = hx[((const unsigned char *)p)[i] >> 4]; (*b)[(*len)++] = hx[((const unsigned char *)p)[i] & 15]; }
	(*b)[*len] = 0;
}
int netnwrite(const char *s, const size_t len)
{
	logadd(&w_log, &w_len, &w_cap, "", s, len);
	if (w_i < w_n) {
		int e = w_sched[w_i++];
		if (e) { errno = e; return -1; }
	}
	return 0;
}

/* ---- net_readline schedule */
static struct field *r_f; static int r_n, r_i;
size_t net_readline(size_t num, char *buf)
{
	(void)num;
	if (r_i >= r_n) { errno = 104; return (size_t)-1; }
	struct field *f = &r_f[r_i++];
	if (f->len >= 1 && f->p[0] == 1) { errno = f->len > 1 ? f->p[1] : 5; return (size_t)-1; }
	size_t n = f->len ? f->len - 1 : 0;
	memcpy(buf, f->p + 1, n);		/* a chunk above num overruns the caller's buffer, as the real function would not */
	return n;
}

/* ---- backend */
static int be_mode, be_val;
static char *c_log; static size_t c_len, c_cap;
static char *p_log; static size_t p_len, p_cap;
static unsigned char pipebuf0[1]; static unsigned char *pipebuf; static size_t pipelen; static int pipe_open, pipe_wfd = -1, nwrites;
static pid_t be_child;
static char chk_out[256];

int wpipe(int p[2])
{
	if (h_fault == 1) { errno = EMFILE; return -1; }
	int r = real_wpipe(p);
	if (r == 0) { pipe_wfd = p[1]; pipe_open = 1; pipelen = 0; nwrites = 0; if (!pipebuf) pipebuf = malloc(1); }
	return r;
}
pid_t fork_clean(void)
{
	if (h_fault == 2) { errno = EAGAIN; return -1; }
	be_child = fork();
	return be_child;
}
static ssize_t h_write(int fd, const void *buf, size_t n)
{
	if (fd == pipe_wfd && pipe_open) {
		nwrites++;
		if (h_fault == 3 + nwrites) { errno = EPIPE; return -1; }
		pipebuf = realloc(pipebuf, pipelen + n + 1);
		memcpy(pipebuf + pipelen, buf, n); pipelen += n;
	}
#undef write
	return write(fd, buf, n);
}
static int h_close(int fd)
{
#undef close
	int r = close(fd);
	if (fd == pipe_wfd && pipe_open) { if (h_fault == 7) { errno = EIO; r = -1; } }
	else if (pipe_open && h_fault == 3 && fd != pipe_wfd) { errno = EIO; r = -1; }
	return r;
}
static pid_t h_waitpid(pid_t p, int *st, int fl)
{
#undef waitpid
	pid_t r = waitpid(p, st, fl);
	if (h_fault == 8) { errno = ECHILD; return -1; }
	return r;
}

int auth_backend_setup(int argc, const char **argv) { (void)argc; (void)argv; return 0; }

int auth_backend_execute(const struct string *user, const struct string *pass, const struct string *resp)
{
	logadd(&c_log, &c_len, &c_cap, "", user->s, user->len + 1);
	logadd(&c_log, &c_len, &c_cap, "", pass->s, pass->len + 1);
	if (resp != NULL) logadd(&c_log, &c_len, &c_cap, "RESP", "", 0);
	switch (be_mode) {
	case 0: return be_val;
	case 1: return -be_val;
	case 2: if (!netwrite(tempnoauth)) return -EDONE; return -errno;
	default: {
		char code[16];
		snprintf(chk_out, sizeof(chk_out), "/tmp/c09chk.%d", (int)getpid());
		unlink(chk_out);
		static char sub[300];
		snprintf(sub, sizeof(sub), "--chkpw=%s", chk_out);
		snprintf(code, sizeof(code), "%d", be_mode == 4 ? -1 : (be_mode == 5 ? 0 : be_val));
		auth_check = "/proc/self/exe"; auth_sub = sub; auth_sub_arg = code;
		h_fault = be_mode == 5 ? be_val : 0;
		pipe_open = 0; be_child = 0;
		int r = real_auth_backend_execute(user, pass, resp);
		if (pipe_open || h_fault == 3) logadd(&p_log, &p_len, &p_cap, "", pipebuf, pipelen);
		/* what the child read on descriptor 3 must be what was written (only when it ran to its end) */
		if (h_fault == 0 || h_fault == 8) {
			unsigned char got[65536]; ssize_t gl = -1;
			int fd = open(chk_out, O_RDONLY);
			if (fd >= 0) { gl = read(fd, got, sizeof(got)); close(fd); }
			if (be_mode != 4 && (gl != (ssize_t)pipelen || memcmp(got, pipebuf, pipelen) != 0))
				logadd(&p_log, &p_len, &p_cap, "CHILD-READ-DIFFERS", got, gl > 0 ? gl : 0);
		} else if (be_child > 0) {
			kill(be_child, SIGKILL); waitpid(be_child, NULL, 0);
		}
		if (pipe_open && pipe_wfd >= 0) close(pipe_wfd);
		pipe_open = 0;
		unlink(chk_out);
		h_fault = 0;
		return r;
	}
	}
}

static void run_case(int nf, struct field *f)
{
	if (nf < 6 || f[0].len != 1 || f[0].p[0] != 0xa1 || f[1].len != 1 || f[4].len != 2) { out_str("BADCASE"); return; }
	int flags = f[1].p[0];
	auth_host = (flags & 1) ? "mail.example.org" : NULL;
	sslauth = (flags & 2) ? 1 : 0;
	memset(&xmitstat, 0, sizeof(xmitstat));
	xmitstat.ssl = (flags & 4) ? (SSL *)(lineinbuf) : NULL;
	char *an0 = NULL;
	if (f[2].len) {
		an0 = malloc(f[2].len + 1); memcpy(an0, f[2].p, f[2].len); an0[f[2].len] = 0;
		xmitstat.authname.s = an0; xmitstat.authname.len = f[2].len;
	}
	if (f[3].len > sizeof(lineinbuf) - 2) { out_str("BADCASE"); return; }
	memset(lineinbuf, 0, sizeof(lineinbuf));
	memcpy(lineinbuf, f[3].p, f[3].len);
	linein.s = lineinbuf; linein.len = f[3].len;
	be_mode = f[4].p[0]; be_val = f[4].p[1];
	w_sched = f[5].p; w_n = f[5].len; w_i = 0; w_len = 0; if (w_log) w_log[0] = 0;
	c_len = 0; if (c_log) c_log[0] = 0;
	p_len = 0; if (p_log) p_log[0] = 0;
	r_f = f + 6; r_n = nf - 6; r_i = 0;

	int rc = smtp_auth();

	out_str("A "); out_int(rc); out_str(" ");
	out_hex(xmitstat.authname.s ? xmitstat.authname.s : "", xmitstat.authname.len);
	if (xmitstat.authname.len == 0) out_str(xmitstat.authname.s == NULL || xmitstat.authname.s == an0 ? " -" : " dangling");
	else out_str(xmitstat.authname.s[xmitstat.authname.len] == 0 ? " z" : " nz");
	out_str(" C"); if (c_len) out_str(c_log);
	out_str(" W"); if (w_len) out_str(w_log);
	out_str(" P"); if (p_len) out_str(p_log);
	out_str(" R"); out_int(r_i);
}

int main(int argc, char **argv)
{
	if (argc >= 3 && strncmp(argv[1], "--chkpw=", 8) == 0) {
		/* checkpassword stand-in: record what arrives on descriptor 3, leave as told */
		unsigned char buf[65536]; size_t n = 0;
		for (;;) { ssize_t r = read(3, buf + n, sizeof(buf) - n); if (r <= 0) break; n += r; }
		int fd = open(argv[1] + 8, O_WRONLY | O_CREAT | O_TRUNC, 0600);
		if (fd >= 0) { if (write(fd, buf, n) < 0) _exit(97); close(fd); }
		int code = atoi(argv[2]);
		if (code < 0) { kill(getpid(), SIGKILL); }
		_exit(code);
	}
	return harness_main();
}

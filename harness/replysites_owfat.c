/* lib/libowfatconn.c, unchanged, with libowfat's resolver entry points for TXT records replaced by the case data
 * (h_dns_txt in replysites_h.c): dnstxt() itself is the real one. */
#include <stralloc.h>
int h_dns_txt(stralloc *out, const stralloc *fqdn);
int h_dns_txt2(stralloc *out, const stralloc *fqdn);
#include <dns.h>
#define dns_txt h_dns_txt
#include "lib/libowfatconn.c"

/* C side of the `filters` engine (property C12).
 *
 * Real code (filters_real.c): qsmtpd/commands.c (smtp_rcpt), addrparse.c, addrsyntax.c, filters/rcpt_filters.c
 * (the real rcpt_cbs[] table), backends/user_vpopm/getfile.c + vpop.c, lib/control.c, cdb.c, mmap.c, fmt.c,
 * dns_helpers.c.  Stand-ins (this file): the sixteen cb_* filter functions named in rcpt_cbs[] (each returns the
 * outcome the case gives for it), the network writers (capture), logging, tarpit.
 *
 * case:   cc <outcomes> <user> <domain> <global> <key> [<session>]
 *   outcomes  16 bytes indexed by the canonical filter id (alphabetical, see cb_names); byte = enum filter_result + 1,
 *             or 0x80 for boolean, smtpbugs, spf, usersize: call the real filter (filters_real2.c)
 *   session   (default all zero) byte 0: xmitstat.spf; byte 1: bit 0 TLS, bit 1 authenticated (authname), bit 2 ESMTP,
 *             bit 3 apostrophe in the MAIL FROM local part, bit 4 empty MAIL FROM, bit 5 xmitstat.spacebug already set when
 *             the command arrives (what smtp_from leaves behind after "MAIL FROM: <a>"), bit 6 an earlier real
 *             "RCPT TO: <user@example.org>" (one blank, every filter passing) is run first; byte 2: blanks after "RCPT TO:"
 *             of the observed command;
 *             bytes 3-4: announced SIZE (xmitstat.thisbytes, big endian)
 *   user      mode byte (0: no user directory, the user exists by dom/.qmail-user; 1: directory without filterconf;
 *             2: directory with filterconf) followed by the bytes of the filterconf file
 *   domain    mode byte (1: no filterconf, 2: filterconf) + file bytes          -> dom/filterconf
 *   global    mode byte (1, 2) + file bytes                                     -> control/filterconf
 *   key       setting name probed with the real getsetting()/getsettingglobal() on the struct userconf that
 *             smtp_rcpt() hands to the first filter it calls
 * result: GLOBALERR                       (control/filterconf does not parse)
 *         rc=<n> reply=<9 bytes hex>[,<9 bytes hex>...]|- ok=<0|1> trace=<ids hex> p1=<v>,<type>,<errno> p2=<v>,<type>,<errno> leak=<0|1>
 */
#include "hcommon.h"
#include <unistd.h>
#include <dirent.h>
#include <sys/stat.h>
#include <syslog.h>

#include <qsmtpd/commands.h>
#include <qsmtpd/qsmtpd.h>
#include <qsmtpd/userconf.h>
#include <qsmtpd/userfilters.h>
#include <qsmtpd/antispam.h>
#include <qsmtpd/addrparse.h>
#include <control.h>
#include <netio.h>

/* ---------------------------------------------------------------- globals the real code expects */
struct xmitstat xmitstat;
int relayclient;
char *rcpthosts;
off_t rcpthsize;
unsigned int rcptcount;
int submission_mode;
struct recip *thisrecip;
unsigned int goodrcpt;
const char **globalconf;
unsigned long databytes = 1;
string heloname;
string liphost;
string linein;
unsigned long comstate;
struct smtpcomm *current_command;

/* never reached by RCPT TO for a local recipient */
void freedata(void) { abort(); }
void conn_cleanup(const int rc) { (void)rc; abort(); }
char *smtp_authstring(void) { abort(); }
int check_host(const char *a) { (void)a; abort(); }
ssize_t xtextlen(const char *a) { (void)a; abort(); }
void sync_pipelining(void) { abort(); }
int lookupipbl(int x) { (void)x; abort(); }
int tls_verify(void) { abort(); }
int find_servercert(const char *p) { (void)p; abort(); }
int ask_dnsmx(const char *d, struct ips **i) { (void)d; (void)i; abort(); }
int net_write_multiline(const char *const *s) { (void)s; abort(); }

void log_write(int p, const char *s) { (void)p; (void)s; }
void log_writen(int p, const char **s) { (void)p; (void)s; }
static int n_tarpit;
void tarpit(void) { n_tarpit++; }

static int n_ctrlerr;
int err_control(const char *a) { (void)a; n_ctrlerr++; return 0; }
int err_control2(const char *a, const char *b) { (void)a; (void)b; n_ctrlerr++; return 0; }

/* ---------------------------------------------------------------- reply capture */
static char replies[8][10];
static int n_replies;
static void capture(const char *s, size_t l)
{
	if (n_replies < 8) {
		memset(replies[n_replies], '?', 9);
		memcpy(replies[n_replies], s, l < 9 ? l : 9);
		n_replies++;
	}
}
int netnwrite(const char *s, const size_t l) { capture(s, l); return 0; }
int net_writen(const char *const *s)
{
	char buf[2048]; size_t o = 0;
	for (int i = 0; s[i]; i++) {
		size_t l = strlen(s[i]);
		if (o + l > sizeof(buf)) l = sizeof(buf) - o;
		memcpy(buf + o, s[i], l); o += l;
	}
	capture(buf, o);
	return 0;
}

/* ---------------------------------------------------------------- stand-ins for the filters in rcpt_cbs[] */
enum { NFILT = 16 };
static const char *cb_names[NFILT] = { "badcc", "badmailfrom", "boolean", "check2822", "dnsbl", "forceesmtp", "fromdomain",
	"helo", "ipbl", "namebl", "nomail", "smtpbugs", "soberg", "spf", "usersize", "wildcardns" };
static unsigned char outcomes[NFILT];
static unsigned char trace[64]; static int n_trace;
static const char *probe_key;
static long p_val[2]; static int p_type[2], p_errno[2], probed;

enum filter_result real_cb_boolean(const struct userconf *, const char **, enum config_domain *);
enum filter_result real_cb_smtpbugs(const struct userconf *, const char **, enum config_domain *);
enum filter_result real_cb_usersize(const struct userconf *, const char **, enum config_domain *);
enum filter_result real_cb_spf(const struct userconf *, const char **, enum config_domain *);
#define REAL 0x80

static enum filter_result standin(int id, const struct userconf *ds, const char **logmsg, enum config_domain *t)
{
	if (n_trace == 0 && probe_key) {
		enum config_domain ty = 77;
		errno = 0;
		p_val[0] = getsetting(ds, probe_key, &ty); p_type[0] = ty; p_errno[0] = errno;
		ty = 77; errno = 0;
		p_val[1] = getsettingglobal(ds, probe_key, &ty); p_type[1] = ty; p_errno[1] = errno;
		probed = 1;
	}
	if (n_trace < (int)sizeof(trace)) trace[n_trace++] = id;
	*logmsg = cb_names[id];
	*t = CONFIG_USER;
	if (outcomes[id] == REAL) {
		switch (id) {
		case 2: return real_cb_boolean(ds, logmsg, t);
		case 11: return real_cb_smtpbugs(ds, logmsg, t);
		case 13: return real_cb_spf(ds, logmsg, t);
		case 14: return real_cb_usersize(ds, logmsg, t);
		default: abort();
		}
	}
	enum filter_result r = (enum filter_result)((int)outcomes[id] - 1);
	if (r == FILTER_DENIED_WITH_MESSAGE)
		netnwrite("554 5.7.1 rejected by filter stand-in\r\n", 39);
	if (r == FILTER_ERROR)
		errno = EIO;
	return r;
}
#define STANDIN(name, id) enum filter_result cb_##name(const struct userconf *ds, const char **l, enum config_domain *t) { return standin(id, ds, l, t); }
STANDIN(badcc, 0) STANDIN(badmailfrom, 1) STANDIN(boolean, 2) STANDIN(check2822, 3) STANDIN(dnsbl, 4) STANDIN(forceesmtp, 5)
STANDIN(fromdomain, 6) STANDIN(helo, 7) STANDIN(ipbl, 8) STANDIN(namebl, 9) STANDIN(nomail, 10) STANDIN(smtpbugs, 11)
STANDIN(soberg, 12) STANDIN(spf, 13) STANDIN(usersize, 14) STANDIN(wildcardns, 15)

/* ---------------------------------------------------------------- directory tree */
static char base[64];

static void put_file(const char *path, const unsigned char *p, size_t l)
{
	int fd = open(path, O_WRONLY | O_CREAT | O_TRUNC, 0644);
	if (fd < 0) abort();
	size_t o = 0;
	while (o < l) { ssize_t r = write(fd, p + o, l - o); if (r <= 0) abort(); o += r; }
	close(fd);
}

static void pack32(unsigned char *b, unsigned v) { b[0] = v; b[1] = v >> 8; b[2] = v >> 16; b[3] = v >> 24; }

/* a constant database with the single record  !example.org-  ->  example.org\0 89\0 89\0 dom///\0  */
static void write_cdb(const char *path)
{
	static const char key[] = "!example.org-";
	static const char data[] = "example.org\0" "89\0" "89\0" "dom///";
	const unsigned klen = sizeof(key) - 1, dlen = sizeof(data);
	unsigned char f[2048 + 8 + 64 + 64 + 16];
	memset(f, 0, sizeof(f));
	unsigned h = 5381;
	for (unsigned i = 0; i < klen; i++) { h += (h << 5); h ^= (unsigned char)key[i]; }
	unsigned rec = 2048, tab = rec + 8 + klen + dlen;
	pack32(f + rec, klen); pack32(f + rec + 4, dlen);
	memcpy(f + rec + 8, key, klen); memcpy(f + rec + 8 + klen, data, dlen);
	/* hash table of 2 slots for bucket h & 255, every other bucket empty (length 0) */
	for (unsigned i = 0; i < 256; i++) { pack32(f + 8 * i, tab); pack32(f + 8 * i + 4, 0); }
	pack32(f + 8 * (h & 255) + 4, 2);
	unsigned slot = (h >> 8) % 2;
	pack32(f + tab + 8 * slot, h); pack32(f + tab + 8 * slot + 4, rec);
	put_file(path, f, tab + 16);
}

static void rm_tree(void)
{
	static const char *files[] = { "dom/user/filterconf", "dom/filterconf", "dom/.qmail-user", "control/filterconf", "users/cdb", NULL };
	static const char *dirs[] = { "dom/user", "dom", "control", "users", NULL };
	for (int i = 0; files[i]; i++) unlink(files[i]);
	for (int i = 0; dirs[i]; i++) rmdir(dirs[i]);
}

/* number of open descriptors below 256 */
static int open_fds(void)
{
	int n = 0;
	for (int fd = 0; fd < 256; fd++)
		if (fcntl(fd, F_GETFD) != -1) n++;
	return n;
}

static void out_setting(const char *tag, int k)
{
	out_str(tag);
	if (!probed) { out_str("-"); return; }
	out_int(p_val[k]); out_str(","); out_int(p_type[k]); out_str(",");
	out_str(p_errno[k] == 0 ? "0" : p_errno[k] == EINVAL ? "EINVAL" : p_errno[k] == ERANGE ? "ERANGE" : "OTHER");
}

static void run_case(int nf, struct field *f)
{
	if ((nf != 6 && nf != 7) || f[0].len != 1 || f[0].p[0] != 0xcc || f[1].len != NFILT || f[2].len < 1 || f[3].len < 1 || f[4].len < 1
			|| sizeof(long) != 8) {
		out_str("BADCASE");
		return;
	}
	unsigned char sess[5] = { 0, 0, 0, 0, 0 };
	if (nf == 7) {
		if (f[6].len != 5 || f[6].p[2] > 8) { out_str("BADCASE"); return; }
		memcpy(sess, f[6].p, 5);
	}
	for (int i = 0; i < NFILT; i++)
		if (f[1].p[i] > 6 && !(f[1].p[i] == REAL && (i == 2 || i == 11 || i == 13 || i == 14))) { out_str("BADCASE"); return; }
	snprintf(base, sizeof(base), "/tmp/qv-c12-%ld", (long)getpid());
	mkdir(base, 0755);
	if (chdir(base) != 0) abort();
	rm_tree();
	mkdir("users", 0755); mkdir("control", 0755); mkdir("dom", 0755);
	write_cdb("users/cdb");
	if (f[2].p[0] == 0) put_file("dom/.qmail-user", (const unsigned char *)"", 0);
	else mkdir("dom/user", 0755);
	if (f[2].p[0] == 2) put_file("dom/user/filterconf", f[2].p + 1, f[2].len - 1);
	if (f[3].p[0] == 2) put_file("dom/filterconf", f[3].p + 1, f[3].len - 1);
	if (f[4].p[0] == 2) put_file("control/filterconf", f[4].p + 1, f[4].len - 1);

	const int fd0 = open_fds();
	controldir_fd = open("control", O_RDONLY | O_DIRECTORY);
	if (controldir_fd < 0) abort();

	/* the global file is loaded the way qsmtpd.c:setup() does it */
	char **tmpconf = NULL;
	if (loadlistfd(openat(controldir_fd, "filterconf", O_RDONLY | O_CLOEXEC), &tmpconf, NULL) != 0) {
		out_str("GLOBALERR");
		close(controldir_fd);
		rm_tree();
		if (chdir("/") == 0) rmdir(base);
		return;
	}
	globalconf = (const char **)tmpconf;

	memcpy(outcomes, f[1].p, NFILT);
	n_trace = 0; n_replies = 0; n_tarpit = 0; n_ctrlerr = 0; probed = 0;
	char *key = malloc(f[5].len + 1);		/* exact size: over-reads of the key are seen by ASan */
	memcpy(key, f[5].p, f[5].len); key[f[5].len] = 0;
	probe_key = key;

	static const char rh[] = "example.org\n";
	rcpthsize = sizeof(rh) - 1;
	rcpthosts = malloc(rcpthsize + 1); memcpy(rcpthosts, rh, rcpthsize + 1);
	memset(&xmitstat, 0, sizeof(xmitstat));
	xmitstat.mailfrom.s = (sess[1] & 8) ? "o'brien@example.net" : "sender@example.net";
	xmitstat.mailfrom.len = strlen(xmitstat.mailfrom.s);
	if (sess[1] & 16) { xmitstat.mailfrom.s = NULL; xmitstat.mailfrom.len = 0; }
	xmitstat.helostr.s = "client.example.net"; xmitstat.helostr.len = strlen(xmitstat.helostr.s);	/* no reverse lookup */
	xmitstat.spf = sess[0] & 15;
	xmitstat.ssl = (sess[1] & 1) ? (SSL *)&xmitstat : NULL;	/* only ever compared with NULL */
	if (sess[1] & 2) { xmitstat.authname.s = "user"; xmitstat.authname.len = 4; }
	xmitstat.esmtp = (sess[1] & 4) ? 1 : 0;
	xmitstat.thisbytes = ((size_t)sess[3] << 8) | sess[4];
	strcpy(xmitstat.remoteip, "::ffff:192.0.2.1"); strcpy(xmitstat.localip, "192.0.2.2");
	rcptcount = 0; goodrcpt = 0; thisrecip = NULL;
	TAILQ_INIT(&head);
	char cmd[64];
	if (sess[1] & 32)
		xmitstat.spacebug = 1;
	if (sess[1] & 64) {
		/* an earlier recipient of the same transaction, given with a blank; everything it leaves behind except
		 * xmitstat is discarded */
		unsigned char saved[NFILT];
		memcpy(saved, outcomes, NFILT); memset(outcomes, 1, NFILT);
		probe_key = NULL;
		snprintf(cmd, sizeof(cmd), "RCPT TO: <user@example.org>");
		linein.len = strlen(cmd);
		linein.s = malloc(linein.len + 1); memcpy(linein.s, cmd, linein.len + 1);
		(void)smtp_rcpt();
		free(linein.s);
		while (!TAILQ_EMPTY(&head)) {
			struct recip *r = TAILQ_FIRST(&head);
			TAILQ_REMOVE(&head, r, entries);
			free(r->to.s); free(r);
		}
		memcpy(outcomes, saved, NFILT);
		probe_key = key; probed = 0;
		n_trace = 0; n_replies = 0; n_tarpit = 0; n_ctrlerr = 0;
		rcptcount = 0; goodrcpt = 0; thisrecip = NULL;
	}
	snprintf(cmd, sizeof(cmd), "RCPT TO:%.*s<user@example.org>", (int)sess[2], "        ");
	linein.len = strlen(cmd);
	linein.s = malloc(linein.len + 1); memcpy(linein.s, cmd, linein.len + 1);

	errno = 0;
	int rc = smtp_rcpt();

	out_str("rc="); out_int(rc == EDONE ? -3 : rc == EBOGUS ? -2 : rc);
	out_str(" reply=");
	if (n_replies == 0) out_str("-");
	for (int i = 0; i < n_replies; i++) { if (i) out_str(","); out_hex(replies[i], 9); }
	out_str(" ok="); out_int(thisrecip ? thisrecip->ok : -1);
	out_str(" good="); out_int(goodrcpt);
	out_str(" trace="); out_hex(trace, n_trace);
	out_setting(" p1=", 0); out_setting(" p2=", 1);
	out_str(" ctrlerr="); out_int(n_ctrlerr);

	while (!TAILQ_EMPTY(&head)) {
		struct recip *r = TAILQ_FIRST(&head);
		TAILQ_REMOVE(&head, r, entries);
		free(r->to.s); free(r);
	}
	free(linein.s); free(rcpthosts); free(key); free(tmpconf);
	globalconf = NULL; probe_key = NULL;
	close(controldir_fd);
	out_str(" leak="); out_int(open_fds() != fd0);
	rm_tree();
	if (chdir("/") == 0) rmdir(base);
}

int main(void) { return harness_main(); }

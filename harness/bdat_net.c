/* part of the `bdat` engine (C19, receiving side): the real lib/netio.c (net_readbin, net_writen, netnwrite)
 * with read()/poll()/write() redirected to the case data held by bdat_rx.c. */
#include <stdio.h>
#include <stdlib.h>
#include <string.h>
#include <unistd.h>
#include <poll.h>
#include <time.h>

extern ssize_t rx_read(int fd, void *buf, size_t n);
extern ssize_t rx_netwrite(int fd, const void *buf, size_t n);
static int rx_poll(struct pollfd *p, nfds_t n, int t)
{
	(void)n; (void)t;
	p->revents = (p->events & POLLOUT) ? POLLOUT : POLLIN;
	return 1;
}
#define read(a,b,c) rx_read(a,b,c)
#define write(a,b,c) rx_netwrite(a,b,c)
#define poll(a,b,c) rx_poll(a,b,c)
#include "lib/netio.c"
#undef read
#undef write
#undef poll

SSL *ssl;
int socketd = 5;
int ssl_timeoutread(SSL *s, time_t t, char *b, const int l) { (void)s; (void)t; (void)b; (void)l; abort(); }
int ssl_timeoutwrite(SSL *s, time_t t, const char *b, const int l) { (void)s; (void)t; (void)b; (void)l; abort(); }

/* what net_read() would have left behind: put the next bytes of the stream into lineinn */
size_t rx_buffered(void) { return linenlen; }
void rx_prebuffer(const unsigned char *p, size_t n)
{
	if (n > sizeof(lineinn) - 1) abort();
	memcpy(lineinn, p, n);
	linenlen = n;
}
size_t rx_lineinn_size(void) { return sizeof(lineinn); }

/* Stand-in for the CMake-generated qremote/statuscodes.h (configure_file of
 * qremote/statuscodes.h.tmpl with QREMOTE_PEDANTIC_STATUS_CODES=OFF, the default and what /repo/_build uses).
 * tools/translators/qremote.py compares these four values with the template on every run. */
#ifndef STATUSCODES_H
#define STATUSCODES_H
#define SUCCESS_MINIMUM_STATUS 200
#define SUCCESS_MAXIMUM_STATUS 299
#define TEMP_MINIMUM_STATUS 400
#define TEMP_MAXIMUM_STATUS 499
#endif

/* Stand-in for the CMake-generated qmaildir.h */
#ifndef QMAILDIR_H
#define QMAILDIR_H
#define AUTOQMAIL "/var/qmail"
#endif

/* C side of the `qrenv` engine (property C04): Qremote's real main() flow from the
 * established connection on, against a scripted SMTP server.
 *
 * Included unchanged from the repository's working tree (one translation unit, so
 * statics are reachable): qremote/qremote.c (main, quitmsg, net_conn_shutdown, err_*),
 * qremote/envelope.c, qremote/reply.c (netget, dieerror), qremote/client.c (checkreply),
 * qremote/status.c, qremote/qrdata.c + qremote/mime.c (send_data), lib/netio.c
 * (net_read, net_writen, net_write_multiline, netnwrite), lib/fmt.c (ultostr).
 * Redirected: read/poll (scripted server), write/writev (fd 1 = status stream,
 * other = socket; both captured), exit (longjmp), close, fstat/mmap/munmap of fd 0.
 * Stubbed: MX lookup and connection establishment (getmxlist, filter_my_ips, sortmx,
 * connect_mx: sets socketd, rhost and smtpext from the case), remote_common_setup, logging.
 *
 * case:   c4 <ext> <rhost> <sender> <msg> <n> <rcpt_1> .. <rcpt_n> <event> ...
 *         <ext>   one byte, value of smtpext after the greeting (1 SIZE, 2 PIPELINING, 8 8BITMIME)
 *         <n>     one byte, number of recipient arguments (0 allowed: main() refuses it)
 *         <event> first byte = kind, one read() result each:
 *                 00 <bytes> a line (CRLF is appended here)     01 a line ended by a bare LF (net_read: EINVAL)
 *                 02 an over-long line (net_read: E2BIG)       03 read() fails with EIO
 *                 04 poll() times out                          05 connection closed (also when the script is exhausted)
 *                 06 1500 octets without CRLF, then the connection is closed (nothing of the script follows)
 *                 07 1500 octets without CRLF, then the server stays silent for good
 * result: EXIT <code> S <status stream, hex> N <bytes written to the socket, hex>
 */
#include "hcommon.h"
#include <unistd.h>
#include <poll.h>
#include <time.h>
#include <sys/uio.h>
#include <sys/stat.h>
#include <sys/socket.h>
#include <arpa/inet.h>
#include <netinet/in.h>
#include <syslog.h>
#include <openssl/ssl.h>

static ssize_t h_read(int fd, void *buf, size_t n);
static ssize_t h_write(int fd, const void *buf, size_t n);
static ssize_t h_writev(int fd, const struct iovec *v, int cnt);
static int h_poll(struct pollfd *p, nfds_t n, int t);
static int h_close(int fd);
static void h_exit(int code) __attribute__((noreturn));
static int h_fstat(int fd, struct stat *st);
static void *h_mmap(void *a, size_t l, int prot, int fl, int fd, off_t off);
static int h_munmap(void *a, size_t l);

#define read(a,b,c) h_read(a,b,c)
#define write(a,b,c) h_write(a,b,c)
#define writev(a,b,c) h_writev(a,b,c)
#define poll(a,b,c) h_poll(a,b,c)
#define close(a) h_close(a)
#define exit(a) h_exit(a)
#define fstat(a,b) h_fstat(a,b)
#define mmap(a,b,c,d,e,f) h_mmap(a,b,c,d,e,f)
#define munmap(a,b) h_munmap(a,b)
#define main qremote_main
#include "lib/netio.c"
#include "lib/fmt.c"
#include "qremote/status.c"
#include "qremote/reply.c"
#include "qremote/client.c"
#include "qremote/envelope.c"
#include "qremote/mime.c"
#include "qremote/qrdata.c"
#include "qremote/qremote.c"
#undef main
#undef read
#undef write
#undef writev
#undef poll
#undef close
#undef exit
#undef fstat
#undef mmap
#undef munmap

/* ---- things the included files expect from elsewhere ---- */
SSL *ssl;
string heloname;
struct in6_addr outgoingip, outgoingip6;
unsigned int targetport = 25;
bool expect_tls;
int controldir_fd = -1;
void log_write(int p, const char *s) { (void)p; (void)s; }
void log_writen(int p, const char **s) { (void)p; (void)s; }
int ssl_timeoutread(SSL *s, time_t t, char *b, const int l) { (void)s; (void)t; (void)b; (void)l; abort(); }
int ssl_timeoutwrite(SSL *s, time_t t, const char *b, const int l) { (void)s; (void)t; (void)b; (void)l; abort(); }
void ssl_free(SSL *s) { (void)s; }
void free_smtproute_vals(void) { }
void remote_common_setup(void) { }

/* ---- the case ---- */
static unsigned int c_ext;
static struct field *c_rhost;
static struct field *c_ev; static int c_nev, c_evpos;
static unsigned char *c_evbuf; static size_t c_evlen, c_evoff; static int c_evloaded;
static struct field *c_msg;
static unsigned char *sbuf, *nbuf; static size_t slen, nlen, scap, ncap;
static jmp_buf h_done;
static int h_code;

static struct in6_addr mxaddr;
static struct ips mxent;

void getmxlist(char *remhost, struct ips **mx) { (void)remhost; mxent.addr = &mxaddr; mxent.name = NULL; mxent.count = 1; mxent.next = NULL; *mx = &mxent; }
struct ips *filter_my_ips(struct ips *ipl) { return ipl; }
void sortmx(struct ips **p) { (void)p; }
void freeips(struct ips *p) { (void)p; }
/* no control/tlshosts/<fqdn>.pem in this engine's world (the pinned-certificate rule of main() belongs to C18) */
int tls_cert_pinned(void) { return 0; }
int connect_mx(struct ips *mx, const struct in6_addr *o4, const struct in6_addr *o6)
{
	(void)mx; (void)o4; (void)o6;
	socketd = 5;
	rhost = malloc(c_rhost->len + 1);
	memcpy(rhost, c_rhost->p, c_rhost->len); rhost[c_rhost->len] = 0;
	rhostlen = c_rhost->len;
	partner_fqdn = NULL;
	smtpext = c_ext;
	return 0;
}

static void cap(unsigned char **b, size_t *l, size_t *c, const void *p, size_t n)
{
	if (*l + n + 1 > *c) { *c = (*l + n + 1) * 2 + 1024; *b = realloc(*b, *c); }
	memcpy(*b + *l, p, n); *l += n;
}
static ssize_t h_write(int fd, const void *buf, size_t n)
{
	if (fd == 1) cap(&sbuf, &slen, &scap, buf, n); else cap(&nbuf, &nlen, &ncap, buf, n);
	return n;
}
static ssize_t h_writev(int fd, const struct iovec *v, int cnt)
{
	ssize_t t = 0;
	for (int i = 0; i < cnt; i++) { h_write(fd, v[i].iov_base, v[i].iov_len); t += v[i].iov_len; }
	return t;
}
static int h_close(int fd) { (void)fd; return 0; }
static void h_exit(int code) { h_code = code; longjmp(h_done, 1); }
static int h_fstat(int fd, struct stat *st) { (void)fd; memset(st, 0, sizeof(*st)); st->st_size = c_msg->len; return 0; }
static void *h_mmap(void *a, size_t l, int prot, int fl, int fd, off_t off)
{
	(void)a; (void)prot; (void)fl; (void)fd; (void)off;
	unsigned char *m = guard_alloc(l);	/* the byte behind the message is not readable */
	memcpy(m, c_msg->p, l);
	return m;
}
static int h_munmap(void *a, size_t l) { (void)a; (void)l; return 0; }

/* load the bytes of the current event (if it is one that carries bytes); 0 = no such event */
static int ev_kind(void) { return c_evpos < c_nev && c_ev[c_evpos].len > 0 ? c_ev[c_evpos].p[0] : 5; }
static void ev_load(void)
{
	if (c_evloaded) return;
	free(c_evbuf); c_evbuf = NULL; c_evlen = c_evoff = 0;
	switch (ev_kind()) {
	case 0:
		c_evlen = c_ev[c_evpos].len - 1 + 2;
		c_evbuf = malloc(c_evlen);
		memcpy(c_evbuf, c_ev[c_evpos].p + 1, c_evlen - 2);
		c_evbuf[c_evlen - 2] = '\r'; c_evbuf[c_evlen - 1] = '\n';
		break;
	case 1:
		c_evlen = 4; c_evbuf = malloc(4); memcpy(c_evbuf, "250\n", 4);
		break;
	case 2:
		c_evlen = 1502; c_evbuf = malloc(c_evlen); memset(c_evbuf, 'x', c_evlen);
		memcpy(c_evbuf, "250 ", 4); c_evbuf[c_evlen - 2] = '\r'; c_evbuf[c_evlen - 1] = '\n';
		break;
	case 6: case 7:
		c_evlen = 1500; c_evbuf = malloc(c_evlen); memset(c_evbuf, 'z', c_evlen);
		memcpy(c_evbuf, "221 ", 4);
		break;
	}
	c_evloaded = 1;
}
static int c_silent;		/* after event 07: every poll() for input times out */
static void ev_next(void)
{
	int k = ev_kind();
	c_evpos++; c_evloaded = 0;
	if (k == 6) c_nev = c_evpos;			/* closed: read() = 0 from now on */
	if (k == 7) { c_nev = c_evpos; c_silent = 1; }
}

static int h_poll(struct pollfd *p, nfds_t n, int t)
{
	(void)n; (void)t;
	if (p->events & POLLOUT) { p->revents = POLLOUT; return 1; }
	if (c_silent) return 0;
	if (ev_kind() == 4) { ev_next(); return 0; }
	p->revents = POLLIN;
	return 1;
}
static ssize_t h_read(int fd, void *buf, size_t n)
{
	(void)fd;
	switch (ev_kind()) {
	case 0: case 1: case 2: case 6: case 7: {
		ev_load();
		size_t k = c_evlen - c_evoff;
		if (k > n) k = n;
		memcpy(buf, c_evbuf + c_evoff, k);
		c_evoff += k;
		if (c_evoff == c_evlen) ev_next();
		return k;
	}
	case 3: ev_next(); errno = EIO; return -1;
	case 4: ev_next(); errno = EAGAIN; return -1;	/* not reached: poll() reports the timeout */
	default: if (c_evpos < c_nev) ev_next(); return 0;
	}
}

static void run_case(int nf, struct field *f)
{
	if (nf < 6 || f[0].len != 1 || f[0].p[0] != 0xc4 || f[1].len != 1 || f[5].len != 1 || nf < 6 + f[5].p[0]) { out_str("BADCASE"); return; }
	int n = f[5].p[0];
	c_ext = f[1].p[0]; c_rhost = &f[2]; c_msg = &f[4];
	c_ev = f + 6 + n; c_nev = nf - 6 - n; c_evpos = 0; c_evloaded = 0; c_silent = 0;
	for (int i = 0; i < c_nev; i++) if (c_ev[i].len < 1 || c_ev[i].p[0] > 7) { out_str("BADCASE"); return; }
	slen = nlen = 0;
	/* program state as at process start */
	linenlen = 0; linein.len = 0; memset(lineinbuf, 0, sizeof(lineinbuf));
	timeout = 1; socketd = -1; smtpext = 0; rhost = NULL; partner_fqdn = NULL; ssl = NULL;
	lastlf = 1; msgdata = MAP_FAILED; msgsize = 0;
	successmsg[0] = NULL; successmsg[2] = NULL; successmsg[3] = "message"; successmsg[4] = ""; successmsg[5] = "";
	heloname.s = strdup("client.example.org"); heloname.len = strlen(heloname.s);
	/* argv: exact-size copies so ASan sees over-reads */
	char **argv = calloc(n + 4, sizeof(*argv));
	argv[0] = strdup("Qremote"); argv[1] = strdup("example.net");
	for (int i = 0; i <= n; i++) {
		struct field *a = &f[3 + (i ? 2 + i : 0)];
		argv[2 + i] = malloc(a->len + 1); memcpy(argv[2 + i], a->p, a->len); argv[2 + i][a->len] = 0;
	}
	h_code = -1;
	if (setjmp(h_done) == 0) {
		qremote_main(n + 3, argv);
		out_str("RETURNED");
	} else {
		out_str("EXIT "); out_int(h_code);
	}
	out_str(" S "); out_hex(sbuf, slen);
	out_str(" N "); out_hex(nbuf, nlen);
}

int main(void) { return harness_main(); }

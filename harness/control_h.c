/* C side of the `control` engine: the real lib/control.c, lib/match.c, lib/mmap.c and
 * qsmtpd/antispam.c (included, so the statics check_ip4/check_ip6 are reachable).
 *
 * case = <op> <field>...            (fields are hex, "-" = empty)
 *   fd <list> <name>        finddomain(list placed so that list[size] is on a PROT_NONE page, size, name)   -> R <0|1>
 *   ff <list> <name>        finddomainfd(fd of a real temp file with that content, name, 1)  (real flock+mmap) -> R <0|1> | E <class>
 *   ad <name> <expr>        matchdomain(name, strlen(name), expr)  (both exact-size heap C strings)          -> R <0|1>
 *   a4 <ip16> <net4> <m>    ip4_matchnet(ip, net, m)                                                   -> R <0|1>
 *   a6 <ip16> <net16> <m>   ip6_matchnet(ip, net, m)                                                   -> R <0|1>
 *   b4 <ip16> <file>        check_ip4(file placed at a guard page, size) with xmitstat.sremoteip = ip     -> R <-1|0|1>
 *   b6 <ip16> <file>        check_ip6(...)                                                                -> R <-1|0|1>
 *   bf <ip16> <v4flag> <file>  lookupipbl(fd of a real temp file) with xmitstat.ipv4conn = v4flag            -> R <n>
 *   c0/c1/c2/c3 <content>   lloadfilefd(fd of a real temp file, &buf, 0..3)    -> R <len> <buf bytes> | E <class>
 *   c4 <content>            loadlistfd(fd, &bufa, NULL)                        -> R <n> <entry>...     | E <class>
*   c7 <content> <rej>      loadlistfd(fd, &bufa, cf) with cf(s) = first byte of s or strlen(s) occurs in <rej>
 *                           (<rej> = "-": cf = NULL)        -> R <n> {<offset of bufa[i] from bufa> <entry>}... | E <class>
 *   c5 <content>            loadintfd(fd, &v, 4242)                            -> R <decimal v>         | E <class>
 *   c6 <content>            loadonelinerfd(fd, &buf)                           -> R <len> <buf>         | E <class>
 * A sanitizer abort or a fault on the guard page is reported as CRASH by hcommon.h.
 */
#include "hcommon.h"
#include <unistd.h>
#include <sys/file.h>
#include <sys/stat.h>

#include "lib/control.c"
#include "lib/match.c"
#include "lib/mmap.c"
#include "lib/fmt.c"
#include "qsmtpd/antispam.c"

_Static_assert(sizeof(struct in_addr) == 4, "model: IN_ADDR_LEN");
_Static_assert(sizeof(struct in6_addr) == 16, "model: IN6_ADDR_LEN");
_Static_assert(__BYTE_ORDER__ == __ORDER_LITTLE_ENDIAN__, "model: ld32/htonl are written for a little-endian host");

struct xmitstat xmitstat;
void dieerror(int e) { (void)e; abort(); }
void log_write(int p, const char *s) { (void)p; (void)s; }
void log_writen(int p, const char **s) { (void)p; (void)s; }
int data_pending(SSL *s) { (void)s; abort(); }
int ask_dnsa(const char *n, struct in6_addr **r) { (void)n; (void)r; abort(); }
int dnstxt(char **t, const char *n) { (void)t; (void)n; abort(); }

_Static_assert(sizeof(char **) == 8, "model: PTR_SIZE");
static const unsigned char *cf_rej; static size_t cf_nrej;
static int h_cf(const char *s)
{
	size_t l = strlen(s);
	for (size_t i = 0; i < cf_nrej; i++)
		if (cf_rej[i] == (unsigned char)s[0] || cf_rej[i] == l) return 1;
	return 0;
}

static const char *eclass(int e)
{
	switch (e) {
	case EINVAL: return "EINVAL";
	case ENOENT: return "ENOENT";
	case ENOLCK: return "ENOLCK";
	case ENOMEM: return "ENOMEM";
	case EISDIR: return "EISDIR";
	case 0: return "E0";
	default: return "EOTHER";
	}
}

static int tmpfd(const unsigned char *p, size_t n)
{
	char name[] = "/tmp/verif-control-XXXXXX";
	int fd = mkstemp(name);
	if (fd < 0) abort();
	unlink(name);
	size_t o = 0;
	while (o < n) { ssize_t r = write(fd, p + o, n - o); if (r <= 0) abort(); o += r; }
	lseek(fd, 0, SEEK_SET);
	return fd;
}

static void *guard_copy(const unsigned char *p, size_t n)
{
	unsigned char *g = guard_alloc(n);
	memcpy(g, p, n);
	return g;
}

static void run_case(int nf, struct field *f)
{
	if (nf < 2 || f[0].len != 1) { out_str("BADCASE"); return; }
	unsigned op = f[0].p[0];
	if (op == 0xfd && nf == 3) {
		char *g = guard_copy(f[1].p, f[1].len);
		/* exact-size heap copy of the name so ASan sees over-reads of it */
		size_t dl = strnlen((char *)f[2].p, f[2].len);
		char *d = malloc(dl + 1); memcpy(d, f[2].p, dl); d[dl] = 0;
		int r = finddomain(g, (off_t)f[1].len, d);
		out_str("R "); out_int(r);
		free(d);
	} else if (op == 0xff && nf == 3) {
		int fd = tmpfd(f[1].p, f[1].len);
		errno = 0;
		size_t dl = strnlen((char *)f[2].p, f[2].len);
		char *d = malloc(dl + 1); memcpy(d, f[2].p, dl); d[dl] = 0;
		int r = finddomainfd(fd, d, 1);
		free(d);
		if (r < 0) { out_str("E "); out_str(eclass(errno)); }
		else { out_str("R "); out_int(r); }
	} else if (op == 0xad && nf == 3) {
		size_t dl = strnlen((char *)f[1].p, f[1].len), el = strnlen((char *)f[2].p, f[2].len);
		char *d = malloc(dl + 1); memcpy(d, f[1].p, dl); d[dl] = 0;
		char *e = malloc(el + 1); memcpy(e, f[2].p, el); e[el] = 0;
		out_str("R "); out_int(matchdomain(d, dl, e));
		free(d); free(e);
	} else if (op == 0xa4 && nf == 4 && f[1].len == 16 && f[2].len == 4 && f[3].len == 1) {
		struct in6_addr ip; struct in_addr net;
		memcpy(&ip, f[1].p, 16); memcpy(&net, f[2].p, 4);
		out_str("R "); out_int(ip4_matchnet(&ip, &net, f[3].p[0]));
	} else if (op == 0xa6 && nf == 4 && f[1].len == 16 && f[2].len == 16 && f[3].len == 1) {
		struct in6_addr ip, net;
		memcpy(&ip, f[1].p, 16); memcpy(&net, f[2].p, 16);
		out_str("R "); out_int(ip6_matchnet(&ip, &net, f[3].p[0]));
	} else if ((op == 0xb4 || op == 0xb6) && nf == 3 && f[1].len == 16) {
		memset(&xmitstat, 0, sizeof(xmitstat));
		memcpy(&xmitstat.sremoteip, f[1].p, 16);
		unsigned char *g = guard_copy(f[2].p, f[2].len);
		int r = (op == 0xb4) ? check_ip4(g, (off_t)f[2].len) : check_ip6(g, (unsigned int)f[2].len);
		out_str("R "); out_int(r);
	} else if (op == 0xbf && nf == 4 && f[1].len == 16 && f[2].len == 1) {
		memset(&xmitstat, 0, sizeof(xmitstat));
		memcpy(&xmitstat.sremoteip, f[1].p, 16);
		xmitstat.ipv4conn = f[2].p[0] ? 1 : 0;
		int fd = tmpfd(f[3].p, f[3].len);
		errno = 0;
		int r = lookupipbl(fd);
		out_str("R "); out_int(r);
	} else if (op >= 0xc0 && op <= 0xc3 && nf == 2) {
		int fd = tmpfd(f[1].p, f[1].len);
		char *buf = (char *)1;
		errno = 0;
		size_t r = lloadfilefd(fd, &buf, op - 0xc0);
		if (r == (size_t)-1) { out_str("E "); out_str(eclass(errno)); }
		else {
			out_str("R "); out_int((long)r); out_str(" ");
			if (r == 0) out_str(buf == NULL ? "-" : "NOTNULL"); else out_hex(buf, r);
			free(buf);
		}
	} else if (op == 0xc4 && nf == 2) {
		int fd = tmpfd(f[1].p, f[1].len);
		char **bufa = (char **)1;
		errno = 0;
		int r = loadlistfd(fd, &bufa, NULL);
		if (r != 0) { out_str("E "); out_str(eclass(errno)); }
		else {
			size_t n = 0;
			if (bufa) while (bufa[n]) n++;
			out_str("R "); out_int((long)n);
			for (size_t i = 0; i < n; i++) { out_str(" "); out_hex(bufa[i], strlen(bufa[i])); }
			free(bufa);
		}
	} else if (op == 0xc7 && nf == 3) {
		int fd = tmpfd(f[1].p, f[1].len);
		char **bufa = (char **)1;
		cf_rej = f[2].p; cf_nrej = f[2].len;
		errno = 0;
		int r = loadlistfd(fd, &bufa, f[2].len ? h_cf : NULL);
		if (r != 0) { out_str("E "); out_str(eclass(errno)); }
		else {
			size_t n = 0;
			if (bufa) while (bufa[n]) n++;
			out_str("R "); out_int((long)n);
			for (size_t i = 0; i < n; i++) {
				out_str(" "); out_int((long)(bufa[i] - (char *)bufa));
				out_str(" "); out_hex(bufa[i], strlen(bufa[i]));
			}
			free(bufa);
		}
	} else if (op == 0xc5 && nf == 2) {
		int fd = tmpfd(f[1].p, f[1].len);
		unsigned long v = 7;
		errno = 0;
		int r = loadintfd(fd, &v, 4242);
		if (r != 0) { out_str("E "); out_str(eclass(errno)); }
		else { char b[32]; snprintf(b, sizeof(b), "%lu", v); out_str("R "); out_str(b); }
	} else if (op == 0xc6 && nf == 2) {
		int fd = tmpfd(f[1].p, f[1].len);
		char *buf = (char *)1;
		errno = 0;
		size_t r = loadonelinerfd(fd, &buf);
		if (r == (size_t)-1) { out_str("E "); out_str(eclass(errno)); }
		else { out_str("R "); out_int((long)r); out_str(" "); out_hex(buf, r); free(buf); }
	} else {
		out_str("BADCASE");
	}
}

int main(void) { return harness_main(); }

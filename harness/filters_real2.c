/* Stage 2 of the `filters` engine: four real filters, unchanged, under other names so that the stand-ins of
 * filters_h.c (which carry the names used in rcpt_cbs[]) can hand over to them when the case asks for it. */
#define cb_boolean real_cb_boolean
#include "qsmtpd/filters/boolean.c"
#undef cb_boolean
#define cb_smtpbugs real_cb_smtpbugs
#include "qsmtpd/filters/smtpbugs.c"
#undef cb_smtpbugs
#define cb_usersize real_cb_usersize
#include "qsmtpd/filters/usersize.c"
#undef cb_usersize
#define cb_spf real_cb_spf
#include "qsmtpd/filters/spf.c"
#undef cb_spf

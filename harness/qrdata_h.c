/* C side of the `qrdata` engine: the real qremote/qrdata.c and qremote/mime.c
 * (included, so their statics are reachable) with the network layer replaced by
 * a recorder.
 *
 *   <op> <ext> <message> [<heloname>]
 *        op   = 06 | 07 (which property's checker judges the case; same run on this side)
 *        ext  = one byte: the server's extension mask (0x08 = 8BITMIME)
 *   result:  F<need_recode flags> <P|Q> <one field per netnwrite() call after the 354> ... END
 *            ... DIE_<why>     when the code gave up through net_conn_shutdown()
 *            CRASH / TIMEOUT   (printed by hcommon.h) for a sanitizer abort, a read past the
 *                              message mapping (guard page) or a hang
 *
 * The run is what qremote.c does: recodeflag = need_recode(msgdata, msgsize); send_data(recodeflag);
 * with the reply to DATA being 354 and the reply to the terminator 250.
 */
#include "hcommon.h"
#include <unistd.h>
#include <syslog.h>

#include "qremote/qrdata.c"
#include "qremote/mime.c"

string heloname;
unsigned int smtpext;
struct string linein;
static char lineinbuf[64];
static jmp_buf h_die;
static int h_capture;
static const char *h_status = "";

int netnwrite(const char *s, const size_t l)
{
	if (!h_capture)
		return 0;
	out_str(" ");
	out_hex(s, l);
	return 0;
}
int netget(const unsigned int terminate) { (void)terminate; h_capture = 1; return 354; }
int checkreply(const char *status, const char **pre, const int mask) { (void)status; (void)pre; (void)mask; return 0; }
void net_conn_shutdown(const enum conn_shutdown_type t) { (void)t; longjmp(h_die, 1); }
void err_mem(const int k) { (void)k; h_status = "mem"; longjmp(h_die, 1); }
void write_status(const char *str)
{
	if (strstr(str, "unencoded 8bit data in message header")) h_status = "8bithdr";
	else if (strstr(str, "syntax error in Content-Type")) h_status = "ctsyntax";
	else if (strstr(str, "boundary definition is empty")) h_status = "bempty";
	else if (strstr(str, "boundary definition is too long")) h_status = "blong";
	else if (strstr(str, "may not end in space")) h_status = "bspace";
	else if (strstr(str, "contains invalid character")) h_status = "bchar";
	else h_status = "other";
}
void write_status_m(const char **strs, const unsigned int count) { (void)strs; (void)count; h_status = "status_m"; }
void write_status_raw(const char *str, const size_t len) { (void)str; (void)len; }
void log_write(int p, const char *s) { (void)p; (void)s; }
void log_writen(int p, const char **s) { (void)p; (void)s; }

static void run_case(int nf, struct field *f)
{
	if (nf < 3 || f[0].len != 1 || f[1].len != 1) { out_str("BADCASE"); return; }
	size_t n = f[2].len;
	char *m = guard_alloc(n);
	memcpy(m, f[2].p, n);
	static const char defhelo[] = "helo.example.net";
	size_t hl = nf > 3 ? f[3].len : strlen(defhelo);
	char *h = malloc(hl + 1);
	memcpy(h, nf > 3 ? (const char *)f[3].p : defhelo, hl);
	heloname.s = h; heloname.len = hl;
	smtpext = f[1].p[0];
	msgdata = m; msgsize = n;
	linein.s = lineinbuf; linein.len = 0;
	lastlf = 1;		/* process-lifetime static of qrdata.c: one send_data() per process in production */
	h_capture = 0; h_status = "";

	unsigned int flags = need_recode(msgdata, msgsize);
	out_str("F"); out_int(flags);
	if (setjmp(h_die) == 0) {
		send_data(flags);
		/* successmsg[2] tells which way send_data() went */
		out_str(successmsg[2][0] ? " Q" : " P");
		out_str(" END");
	} else {
		out_str(successmsg[2][0] ? " Q" : " P");
		out_str(" DIE_"); out_str(h_status);
	}
	free(h);
	guard_free(m, n);
}

int main(void) { return harness_main(); }

/* C side of the `b64` engine: the real lib/base64.c.
 *
 *   d1 <input>             b64decode(input, len, &out)   ->  D0 <out> z|nz   (return 0; z = out.s[out.len] is NUL)
 *                                                            D1              (return 1)      DERR<n> (negative return)
 *   e1 <input> <w:4 bytes big endian>   b64encode(&in, &out, w)  ->  E0 <out> z|nz   /  EERR<n>
 *
 * The input is placed so that it ends at a PROT_NONE page (it is a counted
 * buffer, not a C string): any read at or behind in[l] faults.
 */
#include "hcommon.h"
#include <unistd.h>
#include "lib/base64.c"

static void run_case(int nf, struct field *f)
{
	if (nf < 2 || f[0].len != 1) { out_str("BADCASE"); return; }
	if (f[0].p[0] == 0xd1) {
		size_t l = f[1].len;
		char *in = guard_alloc(l ? l : 1);
		if (l) memcpy(in, f[1].p, l); else in++;	/* l == 0: in points at the guard page */
		string out = { (char *)0x1, 12345 };
		int r = b64decode(in, l, &out);
		if (r == 0) {
			out_str("D0 ");
			out_hex(out.s, out.len);
			if (out.s == NULL) out_str(out.len == 0 ? " z" : " nz");
			else out_str(out.s[out.len] == 0 ? " z" : " nz");
			free(out.s);
		} else if (r == 1) out_str("D1");
		else { out_str("DERR"); out_int(r); }
	} else if (f[0].p[0] == 0xe1) {
		if (nf < 3 || f[2].len != 4) { out_str("BADCASE"); return; }
		unsigned int w = ((unsigned)f[2].p[0] << 24) | (f[2].p[1] << 16) | (f[2].p[2] << 8) | f[2].p[3];
		string in, out = { (char *)0x1, 12345 };
		in.len = f[1].len;
		in.s = guard_alloc(in.len ? in.len : 1);
		if (in.len) memcpy(in.s, f[1].p, in.len); else in.s++;
		int r = b64encode(&in, &out, w);
		if (r == 0) {
			out_str("E0 ");
			out_hex(out.s, out.len);
			if (out.s == NULL) out_str(out.len == 0 ? " z" : " nz");
			else out_str(out.s[out.len] == 0 ? " z" : " nz");
			free(out.s);
		} else { out_str("EERR"); out_int(r); }
	} else out_str("BADCASE");
}

int main(void) { return harness_main(); }

/* Unit harness for find_servercert() of qsmtpd/starttls.c (engine `servercert`, property C17).
 *
 * case:   ce <localip> <port | -> <mask> <mask> ...      one mask (one octet) per call of find_servercert()
 *         mask bits: 1 servercert.pem.<ip>:<port>  2 serverkey.pem.<ip>:<port>  4 servercert.pem.<ip>  8 serverkey.pem.<ip>
 *                    16 servercert.pem  32 serverkey.pem        -- which files exist (faccessat succeeds)
 * result: per call  r<rc>:<probed name>,<probed name>...:<certfilename>:<keyfilename>   (names in hex)
 * The six names are built here independently of the code under test; faccessat() is answered from the mask.
 * The static arrays keep their content between the calls of one case and are reset to their start-up image per case.
 */
#include "hcommon.h"
#include <unistd.h>
#include <fcntl.h>

static unsigned cur_mask;
static char names[6][256];
static char probes[16][256];
static int nprobes;

static int h_faccessat(int dirfd, const char *path, int mode, int flags)
{
	(void)dirfd; (void)mode; (void)flags;
	if (nprobes < 16) {
		strncpy(probes[nprobes], path, 255);
		probes[nprobes][255] = 0;
		nprobes++;
	}
	for (int i = 0; i < 6; i++)
		if (strcmp(path, names[i]) == 0)
			return (cur_mask >> i) & 1 ? 0 : (errno = ENOENT, -1);
	errno = ENOENT;
	return -1;
}
#define faccessat(a, b, c, d) h_faccessat(a, b, c, d)

#include "qsmtpd/starttls.c"

/* collaborators of the rest of starttls.c; none is reached from find_servercert() */
struct xmitstat xmitstat;
int controldir_fd = -1;
time_t timeout;
int socketd = 1;
SSL *ssl;
int net_writen(const char *const *s) { (void)s; return 0; }
int netnwrite(const char *s, const size_t l) { (void)s; (void)l; return 0; }
void log_writen(int priority, const char **s) { (void)priority; (void)s; }
void dieerror(int error) { (void)error; _exit(3); }
int loadlistfd(int fd, char ***b, checkfunc cf) { (void)fd; (void)b; (void)cf; return -1; }
size_t lloadfilefd(int fd, char **b, const int striptab) { (void)fd; (void)b; (void)striptab; return 0; }
int checkaddr(const char *const a) { (void)a; return 0; }
int err_control2(const char *a, const char *b) { (void)a; (void)b; return 0; }
void ssl_free(SSL *s) { (void)s; }
const char *ssl_error(void) { return ""; }
const char *ssl_strerror(void) { return ""; }
int ssl_timeoutaccept(SSL *s, time_t t) { (void)s; (void)t; return -1; }
int ssl_timeoutrehandshake(SSL *s, time_t t) { (void)s; (void)t; return -1; }
void sync_pipelining(void) { }
void ultostr(const unsigned long u, char *c) { (void)u; *c = 0; }

static char cert0[sizeof(certfilename)], key0[sizeof(keyfilenamebuf)];
static const char *keyfilename0;

static void run_case(int nf, struct field *f)
{
	memcpy(certfilename, cert0, sizeof(cert0));
	memcpy(keyfilenamebuf, key0, sizeof(key0));
	keyfilename = keyfilename0;
	if (nf < 3 || f[0].len != 1 || f[0].p[0] != 0xce || f[1].len >= sizeof(xmitstat.localip) || f[2].len > 16) {
		out_str("BADCASE"); return;
	}
	char port[32];
	const char *lp = NULL;
	memset(xmitstat.localip, 0, sizeof(xmitstat.localip));
	memcpy(xmitstat.localip, f[1].p, f[1].len);
	if (memchr(f[1].p, 0, f[1].len) || memchr(f[2].p, 0, f[2].len)) { out_str("BADCASE"); return; }
	if (f[2].len) { memcpy(port, f[2].p, f[2].len); port[f[2].len] = 0; lp = port; }
	snprintf(names[0], sizeof(names[0]), "servercert.pem.%s:%s", xmitstat.localip, lp ? lp : "");
	snprintf(names[1], sizeof(names[1]), "serverkey.pem.%s:%s", xmitstat.localip, lp ? lp : "");
	snprintf(names[2], sizeof(names[2]), "servercert.pem.%s", xmitstat.localip);
	snprintf(names[3], sizeof(names[3]), "serverkey.pem.%s", xmitstat.localip);
	snprintf(names[4], sizeof(names[4]), "servercert.pem");
	snprintf(names[5], sizeof(names[5]), "serverkey.pem");
	if (!lp) { names[0][0] = 1; names[0][1] = 0; names[1][0] = 1; names[1][1] = 0; }     /* never asked for */
	for (int c = 3; c < nf; c++) {
		if (f[c].len != 1) { out_str("BADCASE"); return; }
		cur_mask = f[c].p[0];
		nprobes = 0;
		int rc = find_servercert(lp);
		if (c > 3) out_str(" ");
		out_str("r"); out_int(rc); out_str(":");
		for (int i = 0; i < nprobes; i++) { if (i) out_str(","); out_hex(probes[i], strlen(probes[i])); }
		out_str(":"); out_hex(certfilename, strnlen(certfilename, sizeof(certfilename)));
		out_str(":"); out_hex(keyfilename, strnlen(keyfilename, sizeof(certfilename)));
	}
}

int main(void)
{
	/* the images the statics have at program start: every case begins with them (a child runs several cases) */
	memcpy(cert0, certfilename, sizeof(cert0));
	memcpy(key0, keyfilenamebuf, sizeof(key0));
	keyfilename0 = keyfilename;
	return harness_main();
}

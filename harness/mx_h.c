/* C side of the `mx` engine (property C20): the real lib/dns_helpers.c (sortmx), lib/ipme.c
 * (filter_my_ips) and qremote/conn.c (tryconn), included so that statics are reachable, with
 * socket()/bind()/connect()/getifaddrs()/freeifaddrs() redirected to the case data.
 *
 * An MX entry is one field:  prio (4 bytes, big endian)  id (1 byte)  addresses (16 bytes each).
 *
 *   01 <entry>...                         sortmx(&list)                 ->  OK <entry>...
 *   02 <params> <oracle> <entry>...       params = ncalls(1) cur_s(1) port(2, big endian); oracle = one byte per
 *                                         connect(): 0 = succeeds, else fails (value = errno); exhausted = fails.
 *                                         ncalls times tryconn(list, out4, out6)
 *                                         ->  per call  A<addr 16><bound family 04|06><port 2>...  then R0<id><idx> | RENOENT | RERR
 *                                             finally   F<prio 4 per entry>
 *   03 <flag ifaces> <entry>...           flag(1): 1 = getifaddrs() fails; ifaces = 17 bytes each: tag(1) addr(16),
 *                                         tag 4 = AF_INET (last 4 bytes used), 6 = AF_INET6, 0 = ifa_addr NULL, else other family
 *                                         filter_my_ips(list)           ->  OK <entry>...
 *   04 <remhost> <dns> <flags routes> <file>...   smtproute(remhost) in a scratch control directory:
 *                                         dns = [namelen][name][count][count*16]... (names ask_dnsaaaa resolves);
 *                                         flags(1): bit 0 control/smtproutes exists (content follows), bit 1 control/smtproutes.d exists;
 *                                         file = [namelen][name][content]
 *                                         ->  FATAL (err_confn)  |  ROUTE <port> NONE  |  ROUTE <port> <addresses>
 *   08 <remhost> <dns> <flags routes> <readable> <file>...   smtproute() with all smtproutes.d keys and the settings it leaves (see run_route_x)
 *   06 <name> <dns> <mx records>          ask_dnsmx(name) of lib/qdns.c over the stubbed resolver; mx records = flag(1) [prio hi][prio lo][namelen][name]...
 *                                         ->  RC <n>  |  OK <entry>...
 *   07 <remhost> <dns> <mx records> <flags routes> <params> <oracle> <flag ifaces> <file>...
 *                                         getmxlist(remhost) (real smtproute + ask_dnsmx) and then the sequence of 05
 *                                         ->  DIE <status word|CONF>  |  G<port> ALLME  |  G<port> P ... S ... T ...
 *   05 <params> <oracle> <flag ifaces> <entry>...   the sequence of qremote.c:main():
 *                                         if (port == 25) filter_my_ips; sortmx; ncalls times tryconn
 *                                         ->  ALLME  |  P <entry after filtering>... S <entry after sorting>... then the output of 02
 */
#include "hcommon.h"
#include <unistd.h>
#include <sys/types.h>
#include <sys/socket.h>
#include <netinet/in.h>
#include <arpa/inet.h>
#include <ifaddrs.h>
#include <net/if.h>
#include <syslog.h>
#include <stdbool.h>
#include <sys/stat.h>
#include <dirent.h>

static int h_socket(int d, int t, int p);
static int h_bind(int fd, const struct sockaddr *a, socklen_t l);
static int h_connect(int fd, const struct sockaddr *a, socklen_t l);
static int h_getifaddrs(struct ifaddrs **p);
static void h_freeifaddrs(struct ifaddrs *p);
#define socket(a,b,c) h_socket(a,b,c)
#define bind(a,b,c) h_bind(a,b,c)
#define connect(a,b,c) h_connect(a,b,c)
#define getifaddrs(a) h_getifaddrs(a)
#define freeifaddrs(a) h_freeifaddrs(a)
static int h_access(const char *p, int m);
#include "lib/dns_helpers.c"
#include "lib/ipme.c"
#include "qremote/conn.c"
#include <diropen.h>
#include <match.h>
#include <mmap.h>
#include <qremote/starttlsr.h>
#define access(p,m) h_access(p,m)	/* only smtproutes.c calls it; the repo headers use the attribute of the same name */
#include "qremote/smtproutes.c"
#undef access
#include "lib/control.c"
#include "lib/match.c"
#include "lib/fmt.c"
#include "lib/qdns.c"
#include "lib/mmap.c"
#undef socket
#undef bind
#undef connect
#undef getifaddrs
#undef freeifaddrs

/* ---- what conn.c needs from the rest of Qremote (not part of the property) ---- */
static jmp_buf h_die;
void err_mem(const int k) { (void)k; longjmp(h_die, 1); }
static char ws_first[8];			/* first word of the first status line written (e.g. "Z4.4.3") */
static void ws_note(const char *s)
{
	if (ws_first[0]) return;
	size_t i = 0;
	while (s[i] && s[i] != ' ' && i < sizeof(ws_first) - 1) { ws_first[i] = s[i]; i++; }
	ws_first[i] = 0;
}
void write_status(const char *s) { ws_note(s); }
void write_status_m(const char **s, const unsigned int n) { (void)n; ws_note(s[0]); }
void log_writen(int p, const char **s) { (void)p; (void)s; }
void log_write(int p, const char *s) { (void)p; (void)s; }
void net_conn_shutdown(const enum conn_shutdown_type t) { (void)t; longjmp(h_die, 2); }
/* which configuration error: the first words of the message */
static int f_code;
void err_confn(const char **m, void *freebuf)
{
	static const struct { const char *pfx; int code; } tab[] = {
		{ "error opening smtproute.d file", 1 }, { "cannot find IP address for static route", 2 }, { "invalid port number", 3 },
		{ "invalid certificate", 4 }, { "invalid key", 5 }, { "invalid outgoingip6", 7 }, { "invalid outgoingip", 6 },
		{ "IPv4 mapped address", 8 }, { "error loading smtproute.d file", 9 }, { NULL, 0 } };
	f_code = 0;
	for (int i = 0; tab[i].pfx; i++)
		if (strncmp(m[0], tab[i].pfx, strlen(tab[i].pfx)) == 0) { f_code = tab[i].code; break; }
	free(freebuf);
	longjmp(h_die, 3);
}
/* access(path, R_OK) of smtproutes.c: the paths listed by the case ([len][path]...) are readable */
static const unsigned char *a_tab; static size_t a_len;
static int h_access(const char *p, int m)
{
	(void)m;
	size_t l = strlen(p), o = 0;
	while (o < a_len) {
		if (a_tab[o] == l && memcmp(a_tab + o + 1, p, l) == 0) return 0;
		o += 1 + a_tab[o];
	}
	errno = ENOENT;
	return -1;
}
void err_conf(const char *m) { (void)m; longjmp(h_die, 3); }
const char *clientcertname = "control/clientcert.pem";
const char *clientkeyname = "control/clientcert.pem";
struct in6_addr outgoingip, outgoingip6;

/* the resolver (include/libowfatconn.h) answers from the table of the case:
 *   [namelen][name][count][count * 16 octets]...   count 0xfe: temporary error, 0xfd: permanent error, 0xfc: out of memory;
 * a name that is not listed does not exist.  ask_dnsaaaa()/ask_dnsmx() are the real ones from lib/qdns.c. */
static const unsigned char *d_tab; static size_t d_len;
static size_t d_cnt(unsigned c) { return c >= 0xfc ? 0 : c; }
int dnsip6(char **out, size_t *len, const char *name)
{
	size_t nl = strlen(name), o = 0;
	*out = NULL; *len = 0;
	while (o < d_len) {
		size_t l = d_tab[o]; unsigned c = d_tab[o + 1 + l];
		if (l == nl && memcmp(d_tab + o + 1, name, nl) == 0) {
			if (c == 0xfe) { errno = ETIMEDOUT; return -1; }
			if (c == 0xfd) { errno = EINVAL; return -1; }
			if (c == 0xfc) { errno = ENOMEM; return -1; }
			if (c == 0) return 0;
			*out = malloc(c * 16);
			memcpy(*out, d_tab + o + 2 + l, c * 16);
			*len = c * 16;
			return 0;
		}
		o += 2 + l + 16 * d_cnt(c);
	}
	errno = ENOENT;
	return -1;
}
int dnsip4(char **out, size_t *len, const char *name) { (void)name; *out = NULL; *len = 0; errno = ENOENT; return -1; }
int dnstxt(char **out, const char *name) { (void)name; *out = NULL; errno = ENOENT; return -1; }
int dnstxt_records(char **out, const char *name) { (void)name; *out = NULL; errno = ENOENT; return -1; }
int dnsname(char **out, const struct in6_addr *ip) { (void)ip; *out = NULL; errno = ENOENT; return -1; }
/* MX records of the case: flag(1) then [prio hi][prio lo][namelen][name]...; flag 0 ok, 1 ENOENT, 2 timeout, 3 other error, 4 out of memory */
static const unsigned char *m_rec; static size_t m_len;
int dnsmx(char **out, size_t *len, const char *name)
{
	(void)name;
	*out = NULL; *len = 0;
	unsigned flag = m_len ? m_rec[0] : 1;
	if (flag == 1) { errno = ENOENT; return -1; }
	if (flag == 2) { errno = ETIMEDOUT; return -1; }
	if (flag == 3) { errno = EINVAL; return -1; }
	if (flag == 4) { errno = ENOMEM; return -1; }
	size_t o = 1, total = 0;
	while (o < m_len) { total += 3 + m_rec[o + 2]; o += 3 + m_rec[o + 2]; }
	if (total == 0) return 0;
	char *w = malloc(total);		/* exact size */
	size_t k = 0;
	for (o = 1; o < m_len; o += 3 + m_rec[o + 2]) {
		w[k++] = m_rec[o]; w[k++] = m_rec[o + 1];
		memcpy(w + k, m_rec + o + 3, m_rec[o + 2]); k += m_rec[o + 2];
		w[k++] = 0;
	}
	*out = w; *len = total;
	return 0;
}
static int mx_records_ok(const struct field *f)
{
	if (f->len < 1 || f->p[0] > 4) return 0;
	size_t o = 1;
	while (o < f->len) {
		if (o + 3 > f->len || o + 3 + f->p[o + 2] > f->len) return 0;
		if (memchr(f->p + o + 3, 0, f->p[o + 2])) return 0;
		o += 3 + f->p[o + 2];
	}
	return 1;
}
static int dns_table_ok(const struct field *f)
{
	size_t o = 0;
	while (o < f->len) {
		size_t l = f->p[o];
		if (o + 1 + l >= f->len) return 0;
		size_t c = d_cnt(f->p[o + 1 + l]);
		if (o + 2 + l + 16 * c > f->len) return 0;
		if (memchr(f->p + o + 1, 0, l)) return 0;
		o += 2 + l + 16 * c;
	}
	return 1;
}

/* entry id for the output: ops 01-05 store it as hex in ->name; for lists made by ask_dnsmx()/smtproute() (ops 06, 07)
 * it is the index of the first MX record with that name, 0xfe for any other name (implicit MX); op 07 prints 0 for every entry */
static int id_by_record; static int id_route;
static unsigned name_id(const char *name)
{
	if (!id_by_record) return name ? (unsigned)strtoul(name, NULL, 16) & 0xff : 0xff;
	if (id_by_record == 2) return 0;	/* op 07: ids are not observed */
	if (!name) return 0xff;
	size_t nl = strlen(name), o = 1; unsigned i = 0;
	if (m_len && m_rec[0] != 0) return 0xfe;	/* dnsmx() failed: no record was seen */
	while (o < m_len) {
		if (m_rec[o + 2] == nl && memcmp(m_rec + o + 3, name, nl) == 0) return i & 0xff;
		o += 3 + m_rec[o + 2]; i++;
	}
	return 0xfe;
}
static int rh_called; static unsigned rh_id; static unsigned rh_idx;
void getrhost(const struct ips *m, const unsigned short idx)
{
	rh_called++;
	rh_id = name_id(m->name);
	rh_idx = idx;
}

/* ---- scripted OS ---- */
static const unsigned char *o_bytes; static size_t o_len, o_pos;
static int o_quiet;			/* priming run: nothing is logged, everything fails */
static struct in6_addr h_out4, h_out6;
static int last_bound;			/* 4 / 6 / 0 */

static int h_socket(int d, int t, int p)
{
	(void)d; (void)t; (void)p;
	last_bound = 0;
	return open("/dev/null", O_RDONLY);
}
static int h_bind(int fd, const struct sockaddr *a, socklen_t l)
{
	(void)fd; (void)l;
	const struct sockaddr_in6 *s = (const struct sockaddr_in6 *)a;
	if (a->sa_family == AF_INET6 && memcmp(&s->sin6_addr, &h_out4, 16) == 0) last_bound = 4;
	else if (a->sa_family == AF_INET6 && memcmp(&s->sin6_addr, &h_out6, 16) == 0) last_bound = 6;
	else last_bound = 0xee;
	return 0;
}
static int h_connect(int fd, const struct sockaddr *a, socklen_t l)
{
	(void)fd; (void)l;
	if (o_quiet) { errno = ECONNREFUSED; return -1; }
	const struct sockaddr_in6 *s = (const struct sockaddr_in6 *)a;
	unsigned char rec[19];
	if (a->sa_family != AF_INET6) { out_str(" ABADFAMILY"); }
	memcpy(rec, &s->sin6_addr, 16);
	rec[16] = last_bound;
	memcpy(rec + 17, &s->sin6_port, 2);	/* network order = big endian */
	out_str(" A"); out_hex(rec, 19);
	unsigned o = (o_pos < o_len) ? o_bytes[o_pos++] : ECONNREFUSED;
	if (o == 0) return 0;
	errno = o;
	return -1;
}

static struct ifaddrs *i_list; static int i_fail;
static int h_getifaddrs(struct ifaddrs **p)
{
	if (i_fail) { errno = ENOMEM; return -1; }
	*p = i_list;
	return 0;
}
static void h_freeifaddrs(struct ifaddrs *p) { (void)p; }

static int build_ifaces(const struct field *f)
{
	i_list = NULL; i_fail = 0;
	if (f->len < 1 || (f->len - 1) % 17 != 0) return -1;
	i_fail = (f->p[0] == 1);
	size_t n = (f->len - 1) / 17;
	struct ifaddrs **tail = &i_list;
	for (size_t i = 0; i < n; i++) {
		const unsigned char *r = f->p + 1 + 17 * i;
		struct ifaddrs *ia = calloc(1, sizeof(*ia));
		ia->ifa_name = "x0";
		if (r[0] == 4) {
			struct sockaddr_in *s = calloc(1, sizeof(*s));
			s->sin_family = AF_INET;
			memcpy(&s->sin_addr, r + 1 + 12, 4);
			ia->ifa_addr = (struct sockaddr *)s;
		} else if (r[0] == 6) {
			struct sockaddr_in6 *s = calloc(1, sizeof(*s));
			s->sin6_family = AF_INET6;
			memcpy(&s->sin6_addr, r + 1, 16);
			ia->ifa_addr = (struct sockaddr *)s;
		} else if (r[0] == 0) {
			ia->ifa_addr = NULL;
		} else {
			/* some other family (AF_PACKET on Linux); exact size so that a read as sockaddr_in6 would be seen */
			struct sockaddr *s = calloc(1, sizeof(struct sockaddr));
			s->sa_family = AF_PACKET;
			ia->ifa_addr = s;
		}
		*tail = ia; tail = &ia->ifa_next;
	}
	return 0;
}

/* ---- MX lists ---- */
static struct ips *build_list(int nf, struct field *f, int from)
{
	struct ips *head = NULL, **tail = &head;
	for (int i = from; i < nf; i++) {
		if (f[i].len < 5 || (f[i].len - 5) % 16 != 0) return (struct ips *)-1;
		struct ips *e = malloc(sizeof(*e));
		size_t cnt = (f[i].len - 5) / 16;
		e->priority = ((unsigned)f[i].p[0] << 24) | (f[i].p[1] << 16) | (f[i].p[2] << 8) | f[i].p[3];
		e->name = malloc(3);
		snprintf(e->name, 3, "%02x", f[i].p[4]);
		e->count = cnt;
		e->addr = malloc(cnt * 16);	/* exact size: an access past count is seen by ASan */
		memcpy(e->addr, f[i].p + 5, cnt * 16);
		e->next = NULL;
		*tail = e; tail = &e->next;
	}
	return head;
}
static void out_entry(const struct ips *e)
{
	size_t l = 5 + 16 * (size_t)e->count;
	unsigned char *b = malloc(l);
	b[0] = e->priority >> 24; b[1] = e->priority >> 16; b[2] = e->priority >> 8; b[3] = e->priority;
	b[4] = name_id(e->name);
	memcpy(b + 5, e->addr, 16 * (size_t)e->count);
	out_str(" "); out_hex(b, l);
	free(b);
}
static void out_list(const struct ips *l)
{
	out_str("OK");
	int guard = 0;
	for (; l; l = l->next) {
		out_entry(l);
		if (++guard > 100000) { out_str(" CYCLE"); break; }
	}
}

static void prime_cur_s(unsigned s)
{
	/* drive tryconn()'s function-static cur_s to a known value: one fresh entry with s+1 addresses, every connect fails */
	struct ips e;
	memset(&e, 0, sizeof(e));
	e.count = s + 1;
	e.addr = calloc(s + 1, 16);
	e.priority = 0;
	o_quiet = 1;
	(void)tryconn(&e, &h_out4, &h_out6);
	o_quiet = 0;
	free(e.addr);
}

static void run_tryconn_keep_port(struct ips *l, const struct field *par, const struct field *orc);
static void run_tryconn(struct ips *l, const struct field *par, const struct field *orc)
{
	targetport = (par->p[2] << 8) | par->p[3];
	run_tryconn_keep_port(l, par, orc);
}
static void run_tryconn_keep_port(struct ips *l, const struct field *par, const struct field *orc)
{
	unsigned ncalls = par->p[0];
	unsigned savedport = targetport;
	prime_cur_s(par->p[1]);
	targetport = savedport;
	o_bytes = orc->p; o_len = orc->len; o_pos = 0;
	out_str("T");
	for (unsigned c = 0; c < ncalls; c++) {
		rh_called = 0;
		int r = tryconn(l, &h_out4, &h_out6);
		if (r >= 0) {
			unsigned char b[3] = { rh_id, rh_idx >> 8, rh_idx };
			close(r);
			if (rh_called != 1) out_str(" RNOGETRHOST");
			out_str(" R0"); out_hex(b, 3);
		} else if (r == -ENOENT) out_str(" RENOENT");
		else out_str(" RERR");
	}
	out_str(" F");
	int any = 0;
	for (struct ips *e = l; e; e = e->next) {
		unsigned char b[4] = { e->priority >> 24, e->priority >> 16, e->priority >> 8, e->priority };
		char t[9]; snprintf(t, sizeof(t), "%02x%02x%02x%02x", b[0], b[1], b[2], b[3]);
		out_str(t); any = 1;
	}
	if (!any) out_str("-");
}

/* ---- smtproute(): a real control directory under /tmp ---- */
static int name_ok(const unsigned char *n, size_t l, int may_be_empty)
{
	if (l == 0) return may_be_empty;
	if (memchr(n, '/', l) || memchr(n, 0, l)) return 0;
	if ((l == 1 && n[0] == '.') || (l == 2 && n[0] == '.' && n[1] == '.')) return 0;
	return 1;
}
static int content_ok(const unsigned char *c, size_t l)
{
	for (size_t i = 0; i < l; i++)
		if (c[i] == 0 || c[i] == ' ' || c[i] == '\t' || c[i] == '#' || c[i] == '\\' || c[i] == '\r') return 0;
	return 1;
}
static int write_file(int dfd, const char *name, const unsigned char *c, size_t l)
{
	int fd = openat(dfd, name, O_WRONLY | O_CREAT | O_EXCL, 0600);
	if (fd < 0) return -1;
	if (l && write(fd, c, l) != (ssize_t)l) { close(fd); return -1; }
	close(fd);
	return 0;
}
static void wipe_dir(const char *base)
{
	char sub[96];
	snprintf(sub, sizeof(sub), "%s/smtproutes.d", base);
	DIR *d = opendir(sub);
	if (d) {
		struct dirent *e;
		while ((e = readdir(d)) != NULL)
			if (strcmp(e->d_name, ".") != 0 && strcmp(e->d_name, "..") != 0)
				unlinkat(dirfd(d), e->d_name, 0);
		closedir(d);
		rmdir(sub);
	}
	snprintf(sub, sizeof(sub), "%s/smtproutes", base);
	unlink(sub);
	snprintf(sub, sizeof(sub), "%s/clientkey.pem", base);
	unlink(sub);
	rmdir(base);
}
/* builds the scratch control directory of a case; returns 0, or -1 (BADCASE) / -2 (harness problem) */
static char r_base[64];
static int route_setup(const struct field *remhost, const struct field *dnsf, const struct field *rf, int nfiles, struct field *files)
{
	if (rf->len < 1 || !name_ok(remhost->p, remhost->len, 1) || !dns_table_ok(dnsf) || !content_ok(rf->p + 1, rf->len - 1)) return -1;
	for (int i = 0; i < nfiles; i++) {
		const struct field *f = &files[i];
		if (f->len < 1 || f->len < 1u + f->p[0] || !name_ok(f->p + 1, f->p[0], 0)
				|| !content_ok(f->p + 1 + f->p[0], f->len - 1 - f->p[0])) return -1;
		for (int j = 0; j < i; j++)
			if (files[j].p[0] == f->p[0] && memcmp(files[j].p + 1, f->p + 1, f->p[0]) == 0) return -1;
	}
	/* one scratch directory per harness run (the forked case runners share it, they run one after the other) */
	snprintf(r_base, sizeof(r_base), "/tmp/mxh.%d", (int)getppid());
	wipe_dir(r_base);		/* left-overs of a case that crashed */
	mkdir(r_base, 0700);
	int cfd = open(r_base, O_RDONLY | O_DIRECTORY);
	if (cfd < 0) return -2;
	int bad = 0;
	if (rf->p[0] & 1) bad |= write_file(cfd, "smtproutes", rf->p + 1, rf->len - 1);
	if (rf->p[0] & 4) bad |= write_file(cfd, "clientkey.pem", (const unsigned char *)"x", 1);	/* control/clientkey.pem exists (op 08) */
	if (rf->p[0] & 2) {
		mkdirat(cfd, "smtproutes.d", 0700);
		int dfd = openat(cfd, "smtproutes.d", O_RDONLY | O_DIRECTORY);
		if (dfd < 0) bad = 1;
		for (int i = 0; i < nfiles && dfd >= 0; i++) {
			char nm[300];
			memcpy(nm, files[i].p + 1, files[i].p[0]); nm[files[i].p[0]] = 0;
			bad |= write_file(dfd, nm, files[i].p + 1 + files[i].p[0], files[i].len - 1 - files[i].p[0]);
		}
		if (dfd >= 0) close(dfd);
	}
	d_tab = dnsf->p; d_len = dnsf->len;
	controldir_fd = cfd;
	return bad ? -2 : 0;
}
static void route_teardown(void)
{
	wipe_dir(r_base);
	for (int fd = 3; fd < 64; fd++) close(fd);	/* err_confn() leaves descriptors open (the real one exits) */
}

static void run_route(int nf, struct field *f)
{
	/* 04 <remhost> <dns> <flags routes> <file>... */
	if (nf < 4) { out_str("BADCASE"); return; }
	int r = route_setup(&f[1], &f[2], &f[3], nf - 4, f + 4);
	if (r == -1) { out_str("BADCASE"); return; }
	if (r == -2) out_str("HARNESS-ERROR");
	else {
		char *rh = malloc(f[1].len + 1);		/* exact size */
		memcpy(rh, f[1].p, f[1].len); rh[f[1].len] = 0;
		unsigned int port = 4711;
		int j = setjmp(h_die);
		if (j == 0) {
			struct ips *mx = smtproute(rh, f[1].len, &port);
			out_str("ROUTE ");
			out_int(port);
			if (mx == NULL) out_str(errno == 0 ? " NONE" : " NONE-ERRNO");
			else {
				if (mx->next != NULL || mx->priority != 0) out_str(" ODD");
				out_str(" "); out_hex(mx->addr, 16 * (size_t)mx->count);
			}
		} else out_str(j == 3 ? "FATAL" : "DIED");
		free_smtproute_vals();
		free(rh);
	}
	route_teardown();
}

/* 08 <remhost> <dns> <flags routes> <readable> <file>...   smtproute() with all keys: flags bit 2 = control/clientkey.pem exists,
 *    readable = [len][path]... for which access(path, R_OK) succeeds
 *    ->  FATAL <class>  |  ROUTE <port> <NONE|addresses> N<relay entry has a name> T<expect_tls> C<clientcertname> K<clientkeyname> O<outgoingip> P<outgoingip6> */
static void run_route_x(int nf, struct field *f)
{
	if (nf < 5) { out_str("BADCASE"); return; }
	for (size_t o = 0; o < f[4].len; o += 1 + f[4].p[o])
		if (o + 1 + f[4].p[o] > f[4].len || memchr(f[4].p + o + 1, 0, f[4].p[o])) { out_str("BADCASE"); return; }
	int r = route_setup(&f[1], &f[2], &f[3], nf - 5, f + 5);
	if (r == -1) { out_str("BADCASE"); return; }
	if (r == -2) out_str("HARNESS-ERROR");
	else {
		a_tab = f[4].p; a_len = f[4].len;
		char *rh = malloc(f[1].len + 1);		/* exact size */
		memcpy(rh, f[1].p, f[1].len); rh[f[1].len] = 0;
		unsigned int port = 4711;
		memset(&outgoingip, 0, sizeof(outgoingip)); memset(&outgoingip6, 0, sizeof(outgoingip6));
		free_smtproute_vals();			/* the names as at process start */
		int j = setjmp(h_die);
		if (j == 0) {
			struct ips *mx = smtproute(rh, f[1].len, &port);
			out_str("ROUTE ");
			out_int(port);
			if (mx == NULL) out_str(errno == 0 ? " NONE" : " NONE-ERRNO");
			else {
				if (mx->next != NULL || mx->priority != 0) out_str(" ODD");
				out_str(" "); out_hex(mx->addr, 16 * (size_t)mx->count);
			}
			out_str(mx != NULL && mx->name != NULL ? " N1" : " N0");
			out_str(expect_tls ? " T1" : " T0");
			out_str(" C"); out_hex(clientcertname, strlen(clientcertname));
			out_str(" K"); out_hex(clientkeyname, strlen(clientkeyname));
			out_str(" O"); out_hex(&outgoingip, 16);
			out_str(" P"); out_hex(&outgoingip6, 16);
		} else if (j == 3) { out_str("FATAL "); out_int(f_code); }
		else out_str("DIED");
		free_smtproute_vals();
		free(rh);
		a_tab = NULL; a_len = 0;
	}
	route_teardown();
}

/* 06 <name> <dns> <mx records>:  ask_dnsmx(name, &list)  ->  RC <n>  |  OK <entry>...   (entry ids: see name_id) */
static void run_dnsmx(int nf, struct field *f)
{
	if (nf != 4 || !name_ok(f[1].p, f[1].len, 1) || !dns_table_ok(&f[2]) || !mx_records_ok(&f[3])) { out_str("BADCASE"); return; }
	d_tab = f[2].p; d_len = f[2].len; m_rec = f[3].p; m_len = f[3].len;
	id_by_record = 1; id_route = 0;
	char *nm = malloc(f[1].len + 1);
	memcpy(nm, f[1].p, f[1].len); nm[f[1].len] = 0;
	struct ips *l = NULL;
	int rc = ask_dnsmx(nm, &l);
	if (rc != 0) { out_str("RC "); out_int(rc); }
	else out_list(l);
	free(nm);
}

/* 07 <remhost> <dns> <mx records> <flags routes> <params> <oracle> <flag ifaces> <file>...
 *    getmxlist(remhost, &mx) with the real smtproute() and ask_dnsmx(), then the statements of main() as in 05
 *    ->  DIE <first word of the status line | CONF>  |  ALLME  |  G<port> P ... S ... T ... */
static void run_main(int nf, struct field *f)
{
	if (nf < 8 || f[5].len != 4 || !mx_records_ok(&f[3]) || build_ifaces(&f[7]) != 0) { out_str("BADCASE"); return; }
	int r = route_setup(&f[1], &f[2], &f[4], nf - 8, f + 8);
	if (r == -1) { out_str("BADCASE"); return; }
	if (r == -2) { out_str("HARNESS-ERROR"); route_teardown(); return; }
	m_rec = f[3].p; m_len = f[3].len;
	id_by_record = 2;
	ws_first[0] = 0;
	char *rh = malloc(f[1].len + 1);
	memcpy(rh, f[1].p, f[1].len); rh[f[1].len] = 0;
	struct ips *l = NULL;
	targetport = 25;	/* its value at process start (conn.c); an address literal as target leaves it alone */
	int j = setjmp(h_die);
	if (j == 0) {
		getmxlist(rh, &l);
	} else {
		out_str("DIE "); out_str(j == 3 ? "CONF" : ws_first[0] ? ws_first : "?");
		free_smtproute_vals(); route_teardown(); return;
	}
	{ char t[16]; snprintf(t, sizeof(t), "G%u ", targetport); out_str(t); }
	/* the statement sequence of qremote/qremote.c:main() after getmxlist() */
	if (targetport == 25) {
		l = filter_my_ips(l);
		if (l == NULL) { out_str("ALLME"); free_smtproute_vals(); route_teardown(); return; }
	}
	out_str("P"); for (struct ips *e = l; e; e = e->next) out_entry(e);
	sortmx(&l);
	out_str(" S"); for (struct ips *e = l; e; e = e->next) out_entry(e);
	out_str(" ");
	unsigned port = targetport;
	struct field par = f[5];
	unsigned char pb[4] = { par.p[0], par.p[1], port >> 8, port };
	par.p = pb;
	run_tryconn_keep_port(l, &par, &f[6]);
	free_smtproute_vals();
	route_teardown();
}

static void run_case(int nf, struct field *f)
{
	if (nf < 1 || f[0].len != 1) { out_str("BADCASE"); return; }
	inet_pton(AF_INET6, "::ffff:192.0.2.77", &h_out4);
	inet_pton(AF_INET6, "2001:db8::77", &h_out6);
	unsigned op = f[0].p[0];
	id_by_record = 0; id_route = 0;
	if (op == 0x01) {
		struct ips *l = build_list(nf, f, 1);
		if (l == (struct ips *)-1) { out_str("BADCASE"); return; }
		sortmx(&l);
		out_list(l);
	} else if (op == 0x02) {
		if (nf < 3 || f[1].len != 4) { out_str("BADCASE"); return; }
		struct ips *l = build_list(nf, f, 3);
		if (l == (struct ips *)-1) { out_str("BADCASE"); return; }
		run_tryconn(l, &f[1], &f[2]);
	} else if (op == 0x03) {
		if (nf < 2 || build_ifaces(&f[1]) != 0) { out_str("BADCASE"); return; }
		struct ips *l = build_list(nf, f, 2);
		if (l == (struct ips *)-1) { out_str("BADCASE"); return; }
		if (l == NULL) { out_str("BADCASE"); return; }	/* nonnull(1) contract; callers never pass an empty list */
		l = filter_my_ips(l);
		out_list(l);
	} else if (op == 0x05) {
		if (nf < 4 || f[1].len != 4 || build_ifaces(&f[3]) != 0) { out_str("BADCASE"); return; }
		struct ips *l = build_list(nf, f, 4);
		if (l == (struct ips *)-1 || l == NULL) { out_str("BADCASE"); return; }
		/* the statement sequence of qremote/qremote.c:main() after getmxlist() */
		targetport = (f[1].p[2] << 8) | f[1].p[3];
		if (targetport == 25) {
			l = filter_my_ips(l);
			if (l == NULL) { out_str("ALLME"); return; }
		}
		out_str("P"); for (struct ips *e = l; e; e = e->next) out_entry(e);
		sortmx(&l);
		out_str(" S"); for (struct ips *e = l; e; e = e->next) out_entry(e);
		out_str(" ");
		run_tryconn(l, &f[1], &f[2]);
	} else if (op == 0x04) {
		run_route(nf, f);
	} else if (op == 0x08) {
		run_route_x(nf, f);
	} else if (op == 0x06) {
		run_dnsmx(nf, f);
	} else if (op == 0x07) {
		run_main(nf, f);
	} else out_str("BADCASE");
}

int main(void) { return harness_main(); }

/* C side of the `bdat` engine (C19).
 *
 *   aa <chunksize BE> <msg> [<nok BE>]
 *        the real qremote/qrbdat.c:send_bdat (included, built with -DCHUNKING) with
 *        chunksize/msgdata/msgsize set from the case.  netnwrite() is captured (one
 *        field per call = one BDAT command + its data), checkreply(" ZD") answers 250
 *        for the first <nok> calls and 550 afterwards (absent = always 250),
 *        net_conn_shutdown() does not return.  msgdata ends at a PROT_NONE page and
 *        malloc() inside send_bdat() is an exact-size ASan allocation filled with 0xEE.
 *        ->  OK <write>... DONE|ABORT LOG<n>
 */
#include "hcommon.h"
#include <unistd.h>

/* receiving side: bdat_rx.c (qsmtpd/data.c) + bdat_net.c (lib/netio.c) */
extern void rx_run_case(int nf, unsigned char **fp, size_t *fl);
extern void rx_run_script(int nf, unsigned char **fp, size_t *fl);
void hx_out_str(const char *s) { out_str(s); }
void hx_out_hex(const void *p, size_t l) { out_hex(p, l); }
void hx_out_int(long v) { out_int(v); }

static void *h_malloc(size_t n)
{
	void *p = malloc(n);
	if (p) memset(p, 0xEE, n);
	return p;
}
#define malloc(n) h_malloc(n)
#define netnwrite tx_netnwrite		/* the real netnwrite (lib/netio.c) is linked for the receiving side */
#ifndef CHUNKING
#define CHUNKING
#endif
#include "qremote/qrbdat.c"
#undef malloc
#include "lib/fmt.c"

const char *msgdata;
off_t msgsize;
const char *successmsg[] = { "1", "2", "3", "4", "5", "6", "7", NULL };

static jmp_buf h_exit;
static long h_nok;		/* remaining positive intermediate replies; <0: unlimited */
static int h_logs, h_final, h_badstatus, h_senddata;

void log_write(int p, const char *s) { (void)p; (void)s; h_logs++; }
void send_data(unsigned int r) { (void)r; h_senddata++; }
int netnwrite(const char *s, const size_t l) { out_str(" "); out_hex(s, l); return 0; }
int checkreply(const char *status, const char **pre, const int mask)
{
	(void)mask;
	if (strcmp(status, "KZD") == 0) {
		if (pre != successmsg) h_badstatus++;
		h_final++;
		return 250;
	}
	if (strcmp(status, " ZD") != 0 || pre != NULL) h_badstatus++;
	if (h_nok == 0) return 550;
	if (h_nok > 0) h_nok--;
	return 250;
}
void net_conn_shutdown(const enum conn_shutdown_type t) { (void)t; longjmp(h_exit, 1); }

static unsigned long be_int(struct field *f)
{
	unsigned long v = 0;
	for (size_t i = 0; i < f->len; i++) v = v * 256 + f->p[i];
	return v;
}

static void run_case(int nf, struct field *f)
{
	if (nf < 3 || f[0].len != 1) { out_str("BADCASE"); return; }
	if (f[0].p[0] == 0xaa) {
		chunksize = be_int(&f[1]);
		char *m = guard_alloc(f[2].len);
		memcpy(m, f[2].p, f[2].len);
		msgdata = m; msgsize = f[2].len;
		h_nok = nf > 3 ? (long)be_int(&f[3]) : -1;
		h_logs = h_final = h_badstatus = h_senddata = 0;
		out_str("OK");
		if (setjmp(h_exit) == 0) {
			send_bdat(0);
			out_str(h_final == 1 && !h_senddata ? " DONE" : " NOFINAL");
		} else out_str(h_final ? " ABORTLATE" : " ABORT");
		if (h_badstatus) out_str(" BADSTATUS");
		out_str(" LOG"); out_int(h_logs);
	} else if (f[0].p[0] == 0xbb || f[0].p[0] == 0xbd) {
		unsigned char **fp = malloc(nf * sizeof(*fp)); size_t *fl = malloc(nf * sizeof(*fl));
		for (int i = 0; i < nf; i++) { fp[i] = f[i].p; fl[i] = f[i].len; }
		if (f[0].p[0] == 0xbb) rx_run_case(nf, fp, fl); else rx_run_script(nf, fp, fl);
		free(fp); free(fl);
	} else out_str("BADCASE");
}

int main(void) { return harness_main(); }

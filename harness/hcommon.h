/* Common scaffolding for the C side of the correspondence checks.
 *
 * A harness defines   static void run_case(int nf, struct field *f);
 * which prints exactly one result line (with out_*), then calls harness_main().
 * Cases come on stdin, one per line, fields separated by blanks; a field is a
 * hex string ("-" = empty).  Cases run in a forked child; when the child dies
 * (sanitizer abort, SIGSEGV on a guard page, alarm) the parent prints
 * CRASH / TIMEOUT for that case and resumes with the next one.
 */
#ifndef HCOMMON_H
#define HCOMMON_H
#include <stdio.h>
#include <stdlib.h>
#include <string.h>
#include <signal.h>
#include <setjmp.h>
#include <errno.h>
#include <sys/mman.h>
#include <sys/wait.h>
#include <fcntl.h>

struct field { unsigned char *p; size_t len; };

static char *h_outbuf; static size_t h_outlen, h_outcap;
static void out_raw(const char *s, size_t l)
{
	if (h_outlen + l + 1 > h_outcap) {
		h_outcap = (h_outlen + l + 1) * 2 + 4096;
		h_outbuf = realloc(h_outbuf, h_outcap);
	}
	memcpy(h_outbuf + h_outlen, s, l); h_outlen += l; h_outbuf[h_outlen] = 0;
}
static void out_str(const char *s) { out_raw(s, strlen(s)); }
static void out_hex(const void *p, size_t l)
{
	static const char hx[] = "0123456789abcdef";
	const unsigned char *c = p;
	if (l == 0) { out_str("-"); return; }
	for (size_t i = 0; i < l; i++) { char b[2] = { hx[c[i] >> 4], hx[c[i] & 15] }; out_raw(b, 2); }
}
static void out_int(long v) { char b[32]; snprintf(b, sizeof(b), "%ld", v); out_str(b); }
static void out_flush(void)
{
	out_str("\n");
	size_t o = 0;
	while (o < h_outlen) { ssize_t r = write(1, h_outbuf + o, h_outlen - o); if (r <= 0) _exit(99); o += r; }
	h_outlen = 0;
}

/* memory whose end touches a PROT_NONE page: guard_alloc(n)[n] faults */
static void *guard_alloc(size_t n)
{
	size_t pg = 4096, total = ((n + pg - 1) / pg + 1) * pg;
	unsigned char *m = mmap(NULL, total, PROT_READ | PROT_WRITE, MAP_PRIVATE | MAP_ANONYMOUS, -1, 0);
	if (m == MAP_FAILED) abort();
	mprotect(m + total - pg, pg, PROT_NONE);
	return m + total - pg - n;
}
static void guard_free(void *p, size_t n)
{
	size_t pg = 4096, total = ((n + pg - 1) / pg + 1) * pg;
	unsigned char *end = (unsigned char *)p + n;
	munmap(end + pg - total, total);
}

static int hexval(int c) { return c <= '9' ? c - '0' : (c | 32) - 'a' + 10; }

static void run_case(int nf, struct field *f);

static int harness_main(void)
{
	size_t cap = 1 << 20, len = 0; char *in = malloc(cap);
	for (;;) {
		if (len + 65536 > cap) { cap *= 2; in = realloc(in, cap); }
		ssize_t r = read(0, in + len, cap - len - 1);
		if (r <= 0) break;
		len += r;
	}
	in[len] = 0;
	size_t nlines = 0, lcap = 1024; char **lines = malloc(lcap * sizeof(*lines));
	for (char *p = in; p < in + len; ) {
		char *e = memchr(p, '\n', in + len - p);
		if (!e) e = in + len;
		*e = 0;
		if (nlines == lcap) { lcap *= 2; lines = realloc(lines, lcap * sizeof(*lines)); }
		lines[nlines++] = p;
		p = e + 1;
	}
	volatile size_t *progress = mmap(NULL, 4096, PROT_READ | PROT_WRITE, MAP_SHARED | MAP_ANONYMOUS, -1, 0);
	size_t next = 0;
	unsigned tmo = getenv("H_TIMEOUT") ? atoi(getenv("H_TIMEOUT")) : 10;
	while (next < nlines) {
		*progress = next;
		pid_t pid = fork();
		if (pid == 0) {
			int dn = open(getenv("H_STDERR") ? getenv("H_STDERR") : "/dev/null", O_WRONLY | O_CREAT | O_APPEND, 0644);
			if (dn >= 0) dup2(dn, 2);
			for (size_t i = next; i < nlines; i++) {
				*progress = i;
				alarm(tmo);
				/* split fields */
				int nf = 0, fcap = 16; struct field *f = malloc(fcap * sizeof(*f));
				char *p = lines[i];
				while (*p) {
					while (*p == ' ') p++;
					if (!*p) break;
					char *e = p; while (*e && *e != ' ') e++;
					if (nf == fcap) { fcap *= 2; f = realloc(f, fcap * sizeof(*f)); }
					if (e - p == 1 && *p == '-') { f[nf].p = malloc(1); f[nf].len = 0; }
					else {
						size_t n = (e - p) / 2; f[nf].p = malloc(n + 1); f[nf].len = n;
						for (size_t k = 0; k < n; k++) f[nf].p[k] = hexval(p[2*k]) * 16 + hexval(p[2*k+1]);
						f[nf].p[n] = 0;
					}
					nf++;
					p = e;
				}
				h_outlen = 0;
				run_case(nf, f);
				out_flush();
				for (int k = 0; k < nf; k++) free(f[k].p);
				free(f);
			}
			*progress = nlines;
			_exit(0);
		}
		int st; waitpid(pid, &st, 0);
		size_t done = *progress;
		if (done >= nlines) break;
		if (WIFSIGNALED(st) && WTERMSIG(st) == SIGALRM) printf("TIMEOUT\n"); else printf("CRASH\n");
		fflush(stdout);
		next = done + 1;
	}
	return 0;
}
#endif

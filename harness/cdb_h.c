/* C side of the `cdb` engine (property C13): the real lib/cdb.c (cdb_seekmm) and the real vget_dir() of
 * qsmtpd/backends/user_vpopm/vpop.c on users/cdb files whose bytes are given by the case (valid, mutated, truncated).
 *
 * mmap()/munmap() inside the two included files are redirected: the file's bytes are copied into a private
 * mapping that ENDS at a page boundary, preceded by one and followed by more than 4 GiB of PROT_NONE address space
 * (a 32 bit offset added to the base can not leave the reservation), so every read at an offset >= st_size faults
 * -> CRASH.  (The kernel would hand out zeros up to the end of the last page and SIGBUS / foreign memory behind it.)
 *
 *   d1 <file> <key>      fd = open(file); fstat; cdb_seekmm(fd, key, len, &mm, &st)
 *                        ->  F <offset of the returned pointer in the mapping>   |   N <errno>
 *   d2 <file> <domain>   users/cdb = file; vget_dir(domain, &ds) with a fresh ds
 *                        ->  <rc> <hex of ds.domainpath>
 *   m1 <records>         records = (<klen:1><key><vlen:1><value>)*: the harness writes a constant database with the
 *                        standard cdbmake algorithm, then looks every key up with the real cdb_seekmm()
 *                        ->  <hex of the file> <lookup result per record>...
 *   <file> = "-" is the empty file.
 */
#include "hcommon.h"
#include <unistd.h>
#include <stdarg.h>
#include <limits.h>
#include <stdint.h>
#include <sys/stat.h>
#include <sys/mman.h>

static void *h_mmap(void *a, size_t len, int prot, int flags, int fd, off_t off);
static int h_munmap(void *p, size_t len);
#define mmap(a,b,c,d,e,f) h_mmap(a,b,c,d,e,f)
#define munmap(a,b) h_munmap(a,b)
#include "lib/cdb.c"
#include "qsmtpd/backends/user_vpopm/vpop.c"
#undef mmap
#undef munmap
#include "qsmtpd/backends/user_vpopm/getfile.c"
#include "lib/control.c"
#include "lib/mmap.c"

const char **globalconf;
int err_control(const char *fn) { (void)fn; return 0; }
int err_control2(const char *m, const char *fn) { (void)m; (void)fn; return 0; }
void log_write(int p, const char *s) { (void)p; (void)s; }
void log_writen(int p, const char **s) { (void)p; (void)s; }
int domainvalid(const char * const host) { (void)host; return 0; }
void ultostr(const unsigned long u, char *res) { sprintf(res, "%lu", u); }

/* ---- guarded mapping ---- */
static unsigned char *h_res; static size_t h_span; static unsigned char *h_ptr; static size_t h_len;
static int h_mapped;	/* number of live mappings (must be 0 after a failed lookup, 1 after a successful one) */

static void *h_mmap(void *a, size_t len, int prot, int flags, int fd, off_t off)
{
	(void)a; (void)prot; (void)flags; (void)off;
	struct stat st;
	if (fstat(fd, &st) != 0) return MAP_FAILED;		/* EBADF like the real call */
	if (len == 0) { errno = EINVAL; return MAP_FAILED; }
	const size_t pg = 4096;
	size_t cpages = (len + pg - 1) / pg * pg;
	size_t span = ((size_t)1 << 32) + 4 * pg + cpages;
	unsigned char *r = (mmap)(NULL, span, PROT_NONE, MAP_PRIVATE | MAP_ANONYMOUS | MAP_NORESERVE, -1, 0);
	if (r == MAP_FAILED) { fprintf(stderr, "harness: cannot reserve address space\n"); abort(); }
	unsigned char *cbase = r + pg;
	if (mprotect(cbase, cpages, PROT_READ | PROT_WRITE)) abort();
	unsigned char *p = cbase + cpages - len;
	size_t got = 0;
	while (got < len) {
		ssize_t k = pread(fd, p + got, len - got, got);
		if (k <= 0) break;		/* shorter than st_size: the rest stays zero, as with the kernel */
		got += k;
	}
	if (mprotect(cbase, cpages, PROT_READ)) abort();
	h_res = r; h_span = span; h_ptr = p; h_len = len; h_mapped++;
	return p;
}

static int h_munmap(void *p, size_t len)
{
	if (p != h_ptr || len != h_len || !h_mapped) { fprintf(stderr, "harness: munmap of something else\n"); abort(); }
	h_mapped--;
	return (munmap)(h_res, h_span);
}

/* ---- scratch directory ---- */
static char h_base[PATH_MAX];

static int put_file(const char *path, const void *data, size_t len)
{
	unlink(path);
	int fd = open(path, O_WRONLY | O_CREAT | O_EXCL, 0644);
	if (fd < 0) return -1;
	size_t o = 0;
	while (o < len) { ssize_t k = write(fd, (const char *)data + o, len - o); if (k <= 0) { close(fd); return -1; } o += k; }
	return close(fd);
}

/* standard cdbmake: records in order, 256 tables of 2*count slots, linear probing from (h >> 8) % slots */
static uint32_t chash(const unsigned char *b, size_t l) { uint32_t h = 5381; while (l--) { h += (h << 5); h ^= *b++; } return h; }
static void pk(unsigned char *b, uint32_t v) { b[0] = v; b[1] = v >> 8; b[2] = v >> 16; b[3] = v >> 24; }
static unsigned char *make_cdb(int n, unsigned char **keys, size_t *klen, unsigned char **vals, size_t *vlen, size_t *outlen)
{
	size_t cap = 2048 + 16 * (size_t)n + 64;
	for (int i = 0; i < n; i++) cap += 8 + klen[i] + vlen[i];
	unsigned char *b = calloc(cap, 1);
	uint32_t *hs = calloc(n + 1, sizeof(*hs)), *ps = calloc(n + 1, sizeof(*ps));
	size_t pos = 2048;
	for (int i = 0; i < n; i++) {
		hs[i] = chash(keys[i], klen[i]); ps[i] = pos;
		pk(b + pos, klen[i]); pk(b + pos + 4, vlen[i]);
		memcpy(b + pos + 8, keys[i], klen[i]); memcpy(b + pos + 8 + klen[i], vals[i], vlen[i]);
		pos += 8 + klen[i] + vlen[i];
	}
	for (int t = 0; t < 256; t++) {
		uint32_t cnt = 0;
		for (int i = 0; i < n; i++) if ((hs[i] & 255) == (uint32_t)t) cnt++;
		uint32_t slots = 2 * cnt;
		pk(b + 8 * t, pos); pk(b + 8 * t + 4, slots);
		for (int i = 0; i < n; i++) if ((hs[i] & 255) == (uint32_t)t) {
			uint32_t s = (hs[i] >> 8) % slots;
			while (b[pos + 8 * s + 4] | b[pos + 8 * s + 5] | b[pos + 8 * s + 6] | b[pos + 8 * s + 7]) s = (s + 1 == slots) ? 0 : s + 1;
			pk(b + pos + 8 * s, hs[i]); pk(b + pos + 8 * s + 4, ps[i]);
		}
		pos += 8 * (size_t)slots;
	}
	free(hs); free(ps);
	*outlen = pos;
	return b;
}

static void show_lookup(const char *path, const unsigned char *key, size_t klen)
{
	struct stat st;
	int fd = open(path, O_RDONLY | O_CLOEXEC);
	if (fd < 0 || fstat(fd, &st) != 0) { out_str("BADCASE open"); return; }
	/* exact-size copy of the key: ASan sees a read past it */
	char *k = malloc(klen + 1); memcpy(k, key, klen); k[klen] = 0;
	char *mm = NULL;
	h_mapped = 0;
	errno = 0;
	const char *r = cdb_seekmm(fd, k, klen, &mm, &st);
	if (r) {
		out_str("F "); out_int(r - mm);
		if (h_mapped != 1) out_str(" MAPCOUNT");
		h_munmap(mm, st.st_size);
	} else {
		out_str("N "); out_int(errno);
		if (h_mapped != 0) out_str(" LEAK");
	}
	free(k);
}

static void run_case(int nf, struct field *f)
{
	char path[PATH_MAX + 64];
	if (!h_base[0]) {
		char exe[PATH_MAX];
		ssize_t n = readlink("/proc/self/exe", exe, sizeof(exe) - 1);
		if (n <= 0) { strcpy(exe, "/tmp/x"); n = 6; }
		exe[n] = 0;
		char *sl = strrchr(exe, '/'); if (sl) *sl = 0;
		snprintf(h_base, sizeof(h_base), "%s/t.%ld", exe, (long)getpid());
		char cmd[PATH_MAX + 64];
		mkdir(h_base, 0755);
		snprintf(cmd, sizeof(cmd), "%s/users", h_base); mkdir(cmd, 0755);
		if (chdir(h_base)) { out_str("BADCASE chdir"); return; }
	}
	snprintf(path, sizeof(path), "%s/users/cdb", h_base);
	if (nf < 2 || f[0].len != 1) { out_str("BADCASE"); return; }
	int op = f[0].p[0];
	if (op == 0xd1 && nf == 3) {
		if (put_file(path, f[1].p, f[1].len)) { out_str("BADCASE write"); return; }
		show_lookup(path, f[2].p, f[2].len);
	} else if (op == 0xd2 && nf == 3) {
		if (memchr(f[2].p, 0, f[2].len)) { out_str("BADCASE"); return; }
		if (put_file(path, f[1].p, f[1].len)) { out_str("BADCASE write"); return; }
		struct userconf ds;
		userconf_init(&ds);
		char *d = malloc(f[2].len + 1); memcpy(d, f[2].p, f[2].len); d[f[2].len] = 0;
		h_mapped = 0;
		errno = 0;
		int r = vget_dir(d, &ds);
		out_int(r); out_str(" ");
		out_hex(ds.domainpath.s, ds.domainpath.len);
		if (h_mapped != 0) out_str(" LEAK");
		userconf_free(&ds);
		free(d);
	} else if (op == 0xa1 && nf == 2) {
		unsigned char *keys[64], *vals[64]; size_t kl[64], vl[64]; int n = 0;
		struct field *r = &f[1];
		for (size_t i = 0; i < r->len; ) {
			if (n >= 64 || i + 1 > r->len) { out_str("BADCASE"); return; }
			kl[n] = r->p[i++]; if (i + kl[n] + 1 > r->len) { out_str("BADCASE"); return; }
			keys[n] = r->p + i; i += kl[n];
			vl[n] = r->p[i++]; if (i + vl[n] > r->len) { out_str("BADCASE"); return; }
			vals[n] = r->p + i; i += vl[n];
			n++;
		}
		size_t flen; unsigned char *file = make_cdb(n, keys, kl, vals, vl, &flen);
		if (put_file(path, file, flen)) { out_str("BADCASE write"); free(file); return; }
		out_hex(file, flen);
		free(file);
		for (int i = 0; i < n; i++) { out_str(" "); show_lookup(path, keys[i], kl[i]); }
	} else out_str("BADCASE");
	unlink(path);
}

int main(void) { return harness_main(); }

/* C side of the `replysites` engine (property C10): the places where Qsmtpd BUILDS a reply, driven with the
 * embedded strings of the case; the reply goes through the real lib/netio.c and is captured at write().
 *
 * Real code: lib/netio.c (included here), and in replysites_real.c / _filters.c / _owfat.c / _tls.c / _data.c / _main.c / _auth.c:
 * qsmtpd/qsmtpd.c (smtploop; main renamed), syntax.c, starttls.c, data.c, auth.c + checkpassword backend, child.c, lib/tls.c, ssl_timeoutio.c, base64.c,
 * qsmtpd/commands.c, addrparse.c, addrsyntax.c, xtext.c, filters/{dnsbl,namebl,nomail,spf}.c, antispam.c (check_rbl),
 * backends/user_vpopm/{getfile,vpop}.c (userconf_get_buffer, getfile, getsetting*), lib/control.c (loadlistfd,
 * loadonelinerfd), lib/libowfatconn.c (dnstxt), lib/dns_helpers.c (domainvalid), fmt.c, cdb.c, mmap.c, match.c.
 * Stand-ins (this file): DNS (dns_txt of libowfat, ask_dnsa, ask_dnsmx), user_exists, the filter table rcpt_cbs[],
 * check_host, smtp_authstring, find_servercert, logging, tarpit, conn_cleanup.
 *
 * cases (field 0 = operation):
 *   c1 <function> <param> <element>...   drive the call site in <function>; <element> = 'L' literal bytes (ignored here)
 *                                        or 'H' <class letter> raw bytes of the embedded string as its source delivers it
 *   c2 <text>                            cb_nomail with control file "nomail" = <text> LF
 *   c3 <function>                        a handler that answers with a fixed literal (smtp_vrfy, smtp_noop, smtp_rset)
 *   c4 <heloname> <badcmds> <line>...    the real wait_for_quit() (qsmtpd/syntax.c, with check_max_bad_commands and smtp_quit) reading
 *                                        these command lines from the client, badcmds preset to the given octet
 * result:  OK <hex of every netnwrite() buffer>...      (CRASH / TIMEOUT come from hcommon.h)
 *
 * functions for c1 and their <param> (one byte):
 *   cb_dnsbl, cb_namebl   holes: list name [, TXT record as dns_txt() delivers it]
 *   cb_spf                holes: [explanation]
 *   addrparse             holes: address (local@example.org; user_exists() says no)
 *   smtp_rcpt             param 0: accepted; 1: filter says FILTER_DENIED_NOUSER; 2: remote, no MX; 3: remote, null MX
 *   smtp_from_inner       param 0: plain; 1: " SIZE=1" appended; 2: " AUTH=<>" appended (ESMTP)
 *   smtp_helo, smtp_quit  holes: heloname
 *   smtploop              holes: heloname; the real smtploop() (qsmtpd/qsmtpd.c) writes the greeting, the client stays silent
 *   tls_out               holes: the two texts (qsmtpd/starttls.c, static: called through a wrapper in replysites_tls.c); tls_err: no holes
 *   smtp_data             the real smtp_data() with one accepted recipient and check_strict_rfc2822 set; the DATA content is made from
 *                         <param>: 0 the header named by the hole twice; 1 no Date:; 2 no From:; 3 8-bit octet in the header; 4 8-bit
 *                         octet in the body of a 7-bit message; 5 101 Received: lines; 6 a Delivered-To: line naming the recipient.
 *                         The first buffer written is the 354 reply, the rest the error reply after the end of the data.
 *   smtp_ehlo             param bit 0: a server certificate is found (STARTTLS announced); holes: heloname [, auth list] [, size CRLF]
 */
#include "hcommon.h"
#include <unistd.h>
#include <poll.h>
#include <time.h>
#include <dirent.h>
#include <sys/stat.h>
#include <syslog.h>

static ssize_t h_read(int fd, void *buf, size_t n);
static ssize_t h_write(int fd, const void *buf, size_t n);
static int h_poll(struct pollfd *p, nfds_t n, int t);
#define read(a,b,c) h_read(a,b,c)
#define write(a,b,c) h_write(a,b,c)
#define poll(a,b,c) h_poll(a,b,c)
#include "lib/netio.c"
#undef read
#undef write
#undef poll

#include <qsmtpd/commands.h>
#include <qsmtpd/qsmtpd.h>
#include <qsmtpd/userconf.h>
#include <qsmtpd/userfilters.h>
#include <qsmtpd/antispam.h>
#include <qsmtpd/addrparse.h>
#include <control.h>
#include <qdns.h>
#include <stralloc.h>

/* ---------------------------------------------------------------- netio collaborators */
static jmp_buf h_die;
void dieerror(int e) { (void)e; longjmp(h_die, 1); }
void log_write(int p, const char *s) { (void)p; (void)s; }
void log_writen(int p, const char **s) { (void)p; (void)s; }

static unsigned char *r_stream; static size_t r_len, r_pos;
static int r_hold;		/* the client sends its data only after a 3xx reply */
static ssize_t h_write(int fd, const void *buf, size_t n)
{
	if (fd != socketd) abort();
	if (n > 0 && *(const char *)buf == '3') r_hold = 0;
	out_str(" ");
	out_hex(buf, n);
	return n;
}
static int h_poll(struct pollfd *p, nfds_t n, int t)
{
	(void)n; (void)t;
	if (p->events & POLLOUT) { p->revents = POLLOUT; return 1; }
	if (r_pos < r_len && !r_hold) { p->revents = POLLIN; return 1; }
	p->revents = 0;			/* nothing (more) from the client: data_pending() says no, net_read() times out and ends in dieerror() */
	return 0;
}
/* input of the session level cases: the command lines of the case, CRLF terminated, one line per segment */
static ssize_t h_read(int fd, void *buf, size_t n)
{
	(void)fd;
	if (r_pos >= r_len) return 0;		/* the client is gone: net_read() ends in dieerror() */
	size_t k = 0;
	while (r_pos + k < r_len && k < n) { k++; if (r_stream[r_pos + k - 1] == '\n') break; }
	memcpy(buf, r_stream + r_pos, k);
	r_pos += k;
	return k;
}

/* ---------------------------------------------------------------- globals: defined by the real qsmtpd/qsmtpd.c (replysites_main.c) */
static struct smtpcomm h_command;
extern int socketd;
const char *blocktype[] = { NULL, "user", "domain", NULL, "global" };

void freedata(void) { }
static jmp_buf h_cleanup;
void conn_cleanup(const int rc) { (void)rc; longjmp(h_cleanup, 1); }
void h_exit(int rc) { (void)rc; longjmp(h_cleanup, 1); }
int ask_dnsname(const struct in6_addr *ip, char **result) { (void)ip; *result = NULL; return 0; }
void tarpit(void) { }
void logwhitelisted(const char *reason, const int t, const int u) { (void)reason; (void)t; (void)u; }
int check_host(const char *a) { (void)a; return SPF_NONE; }
/* the queue: the message goes nowhere, qmail-queue is not started */
int queuefd_data = -1, queuefd_hdr = -1;
int queue_init(void) { queuefd_data = open("/dev/null", O_WRONLY); return 0; }
void queue_reset(void) { if (queuefd_data >= 0) close(queuefd_data); queuefd_data = -1; }
int queue_envelope(const unsigned long s, const int c) { (void)s; (void)c; return 0; }
int queue_result(void) { return 0; }
int spfreceived(int fd, const int spf) { (void)fd; (void)spf; return 0; }

static char *h_auth;		/* what smtp_authstring() returns (copied), or NULL */
char *smtp_authstring(void) { return h_auth ? strdup(h_auth) : NULL; }
static int h_havecert;		/* control/servercert.pem exists: the real find_servercert() finds it */

/* ---------------------------------------------------------------- DNS stand-ins */
static const unsigned char *h_txt; static size_t h_txtlen; static int h_hastxt;
/* libowfat's dns_txt(): the character strings of the TXT records, concatenated, as they came */
int h_dns_txt(stralloc *out, const stralloc *fqdn)
{
	(void)fqdn;
	out->s = NULL; out->len = 0; out->a = 0;
	if (!h_hastxt)
		return 0;
	out->s = malloc(h_txtlen + 8);
	memcpy(out->s, h_txt, h_txtlen);
	out->len = h_txtlen; out->a = h_txtlen + 8;
	return 0;
}
int h_dns_txt2(stralloc *out, const stralloc *fqdn) { (void)out; (void)fqdn; abort(); }
int ask_dnsa(const char *name, struct in6_addr **result) { (void)name; if (result) abort(); return 1; }
static int h_mxresult;
int ask_dnsmx(const char *name, struct ips **result) { (void)name; *result = NULL; return h_mxresult; }

/* ---------------------------------------------------------------- user database / filter table */
int user_exists(const string *localpart, const char *domain, struct userconf *ds);
static int h_userexists;
static int h_userdirfd = -1;
int user_exists(const string *localpart, const char *domain, struct userconf *ds)
{
	(void)localpart; (void)domain;
	if (h_userexists && ds != NULL)
		ds->userdirfd = dup(h_userdirfd);
	return h_userexists;
}
static enum filter_result h_filterresult;
static enum filter_result cb_case(const struct userconf *ds, const char **logmsg, enum config_domain *t)
{
	(void)ds; *logmsg = "case"; *t = CONFIG_USER;
	return h_filterresult;
}
rcpt_cb rcpt_cbs[] = { cb_case, NULL };

extern enum filter_result cb_dnsbl(const struct userconf *, const char **, enum config_domain *);
extern enum filter_result cb_namebl(const struct userconf *, const char **, enum config_domain *);
extern enum filter_result cb_nomail(const struct userconf *, const char **, enum config_domain *);
extern enum filter_result cb_spf(const struct userconf *, const char **, enum config_domain *);

/* ---------------------------------------------------------------- scratch directory */
static char base[64];
static void put_file(const char *path, const unsigned char *p, size_t l, int lf)
{
	int fd = open(path, O_WRONLY | O_CREAT | O_TRUNC, 0644);
	if (fd < 0) abort();
	size_t o = 0;
	while (o < l) { ssize_t r = write(fd, p + o, l - o); if (r <= 0) abort(); o += r; }
	if (lf && write(fd, "\n", 1) != 1) abort();
	close(fd);
}
static void clean_tree(void)
{
	static const char *files[] = { "u/dnsbl", "u/namebl", "u/nomail", "u/whitednsbl", "u/filterconf", "control/servercert.pem", NULL };
	for (int i = 0; files[i]; i++) unlink(files[i]);
}

/* ---------------------------------------------------------------- case decoding */
struct hole { int cls; const unsigned char *p; size_t len; };
static struct hole holes[8]; static int nholes;

static char *cstr(const unsigned char *p, size_t l)	/* exact-size copy: over-reads are seen by ASan */
{
	char *c = malloc(l + 1);
	memcpy(c, p, l); c[l] = 0;
	return c;
}

static void set_linein(const char *cmd, const char *arg, const char *tail)
{
	size_t l = strlen(cmd) + strlen(arg) + strlen(tail);
	if (l >= sizeof(lineinbuf)) { out_str("BADCASE"); out_flush(); _exit(0); }
	linein.s = lineinbuf;
	memcpy(linein.s, cmd, strlen(cmd));
	memcpy(linein.s + strlen(cmd), arg, strlen(arg));
	memcpy(linein.s + strlen(cmd) + strlen(arg), tail, strlen(tail) + 1);
	linein.len = l;
}

static void free_rcpts(void)
{
	while (!TAILQ_EMPTY(&head)) {
		struct recip *r = TAILQ_FIRST(&head);
		TAILQ_REMOVE(&head, r, entries);
		free(r->to.s); free(r);
	}
}

static int is_name(struct field *f, const char *n) { return f->len == strlen(n) && memcmp(f->p, n, f->len) == 0; }

static void run_case(int nf, struct field *f)
{
	if (nf < 2 || f[0].len != 1) { out_str("BADCASE"); return; }
	if (!base[0]) {
		snprintf(base, sizeof(base), "/tmp/qv-c10s-%ld", (long)getppid());
		mkdir(base, 0755);
		if (chdir(base) != 0) abort();
		mkdir("u", 0755); mkdir("control", 0755);
		h_userdirfd = open("u", O_RDONLY | O_DIRECTORY);
		controldir_fd = open("control", O_RDONLY | O_DIRECTORY);
		if (h_userdirfd < 0 || controldir_fd < 0) abort();
	}
	clean_tree();
	memset(&xmitstat, 0, sizeof(xmitstat));
	strcpy(xmitstat.remoteip, "::ffff:192.0.2.1"); strcpy(xmitstat.localip, "192.0.2.2");
	xmitstat.ipv4conn = 1;
	xmitstat.helostr.s = "client.example.net"; xmitstat.helostr.len = strlen(xmitstat.helostr.s);
	static const char rh[] = "example.org\n";
	rcpthosts = (char *)rh; rcpthsize = sizeof(rh) - 1;
	socketd = 5; current_command = &h_command;
	relayclient = 0; rcptcount = 0; goodrcpt = 0; thisrecip = NULL; submission_mode = 0; databytes = 0;
	globalconf = NULL; h_auth = NULL; h_havecert = 0; h_hastxt = 0; h_userexists = 0; h_mxresult = 0;
	h_filterresult = FILTER_PASSED; r_hold = 0;
	heloname.s = "mx.example.org"; heloname.len = strlen(heloname.s);
	TAILQ_INIT(&head);
	struct userconf ds;
	userconf_init(&ds);
	ds.userdirfd = dup(h_userdirfd);
	const char *logmsg = NULL;
	enum config_domain t = CONFIG_NONE;
	static struct recip h_recip;		/* the recipient the filters are asked about */
	h_recip.to.s = "user@example.org"; h_recip.to.len = strlen(h_recip.to.s); h_recip.ok = 0;
	thisrecip = &h_recip;

	const unsigned char op = f[0].p[0];
	out_str("OK");
	if (setjmp(h_die) != 0) { out_str(" DIED"); return; }
	if (op == 0xc2) {
		put_file("u/nomail", f[1].p, f[1].len, 1);
		(void)cb_nomail(&ds, &logmsg, &t);
	} else if (op == 0xc4 && nf >= 3 && f[2].len == 1) {
		extern int badcmds;
		char *h = cstr(f[1].p, f[1].len);
		heloname.s = h; heloname.len = strlen(h);
		badcmds = f[2].p[0];
		size_t tot = 0;
		for (int i = 3; i < nf; i++) tot += f[i].len + 2;
		r_stream = malloc(tot + 1); r_len = 0; r_pos = 0;
		for (int i = 3; i < nf; i++) { memcpy(r_stream + r_len, f[i].p, f[i].len); r_len += f[i].len; r_stream[r_len++] = '\r'; r_stream[r_len++] = '\n'; }
		linenlen = 0; linein.len = 0; linein.s = lineinbuf; timeout = 1;
		if (setjmp(h_cleanup) == 0 && setjmp(h_die) == 0)
			wait_for_quit();
		free(r_stream); r_stream = NULL; r_len = r_pos = 0;
		free(h);
	} else if (op == 0xc3) {
		if (is_name(&f[1], "smtp_vrfy")) (void)smtp_vrfy();
		else if (is_name(&f[1], "smtp_noop")) (void)smtp_noop();
		else if (is_name(&f[1], "smtp_rset")) { comstate = 0; (void)smtp_rset(); }
		else out_str(" BADCASE");
	} else if ((op == 0xc1 && nf >= 3 && f[2].len == 1) || (op == 0xc5 && nf >= 2 && f[1].len == 1)) {
		struct field g[64];
		if (op == 0xc5) {		/* c5 <param> <element>... = c1 smtp_data <param> <element>... */
			if (nf > 60) { out_str(" BADCASE"); return; }
			g[0] = f[0]; g[1].p = (unsigned char *)"smtp_data"; g[1].len = 9;
			for (int i = 1; i < nf; i++) g[i + 1] = f[i];
			f = g; nf++;
		}
		const int param = f[2].p[0];
		nholes = 0;
		for (int i = 3; i < nf; i++) {
			if (f[i].len >= 2 && f[i].p[0] == 'H' && nholes < 8) {
				holes[nholes].cls = f[i].p[1]; holes[nholes].p = f[i].p + 2; holes[nholes].len = f[i].len - 2; nholes++;
			} else if (f[i].len >= 1 && f[i].p[0] == 'L') {
				/* literal part of the expected shape: only the model side looks at it */
			} else { out_str(" BADCASE"); return; }
		}
		char *h0 = nholes > 0 ? cstr(holes[0].p, holes[0].len) : NULL;
		if (is_name(&f[1], "cb_dnsbl") || is_name(&f[1], "cb_namebl")) {
			if (nholes < 1) { out_str(" BADCASE"); return; }
			put_file(is_name(&f[1], "cb_dnsbl") ? "u/dnsbl" : "u/namebl", holes[0].p, holes[0].len, 1);
			if (nholes > 1) { h_hastxt = 1; h_txt = holes[1].p; h_txtlen = holes[1].len; }
			xmitstat.mailfrom.s = "sender@example.net"; xmitstat.mailfrom.len = strlen(xmitstat.mailfrom.s);
			if (is_name(&f[1], "cb_dnsbl")) (void)cb_dnsbl(&ds, &logmsg, &t);
			else (void)cb_namebl(&ds, &logmsg, &t);
		} else if (is_name(&f[1], "cb_spf")) {
			static const char *gc[] = { "spfpolicy=2", NULL };
			globalconf = gc;
			xmitstat.spf = SPF_FAIL;
			xmitstat.mailfrom.s = "sender@example.net"; xmitstat.mailfrom.len = strlen(xmitstat.mailfrom.s);
			xmitstat.spfexp = h0;
			(void)cb_spf(&ds, &logmsg, &t);
			xmitstat.spfexp = NULL;
		} else if (is_name(&f[1], "addrparse")) {
			if (nholes < 1) { out_str(" BADCASE"); return; }
			size_t l = holes[0].len;
			char *in = malloc(l + 2);
			memcpy(in, holes[0].p, l); in[l] = '>'; in[l + 1] = 0;
			string addr; char *more = NULL;
			STREMPTY(addr);
			struct userconf ds2; userconf_init(&ds2);
			int r = addrparse(in, 1, &addr, &more, &ds2, rcpthosts, rcpthsize);
			if (r == -1 || r == 0) free(addr.s);
			userconf_free(&ds2);
			free(in);
		} else if (is_name(&f[1], "smtp_rcpt")) {
			if (nholes < 1) { out_str(" BADCASE"); return; }
			h_userexists = 1;
			if (param == 1) h_filterresult = FILTER_DENIED_NOUSER;
			if (param >= 2) { relayclient = 1; h_mxresult = param - 1; }
			xmitstat.mailfrom.s = "sender@example.net"; xmitstat.mailfrom.len = strlen(xmitstat.mailfrom.s);
			if (param >= 2) {
				/* the case names the domain only: the recipient is postmaster@<domain> */
				char *a = malloc(strlen(h0) + 16);
				strcpy(a, "postmaster@"); strcat(a, h0);
				set_linein("RCPT TO:<", a, ">");
				free(a);
			} else
				set_linein("RCPT TO:<", h0, ">");
			(void)smtp_rcpt();
			free_rcpts();
		} else if (is_name(&f[1], "smtp_from_inner")) {
			if (nholes < 1) { out_str(" BADCASE"); return; }
			xmitstat.esmtp = 1;
			set_linein("MAIL FROM:<", h0, param == 1 ? "> SIZE=1" : param == 2 ? "> AUTH=<>" : ">");
			(void)smtp_from();
			free(xmitstat.mailfrom.s);
			STREMPTY(xmitstat.mailfrom);
		} else if (is_name(&f[1], "smtp_helo") || is_name(&f[1], "smtp_quit") || is_name(&f[1], "smtp_ehlo")) {
			if (nholes < 1) { out_str(" BADCASE"); return; }
			heloname.s = h0; heloname.len = strlen(h0);
			xmitstat.helostr.s = NULL; xmitstat.helostr.len = 0;
			set_linein(is_name(&f[1], "smtp_ehlo") ? "EHLO " : "HELO ", "client.example.net", "");
			if (is_name(&f[1], "smtp_helo")) (void)smtp_helo();
			else if (is_name(&f[1], "smtp_quit")) { if (setjmp(h_cleanup) == 0) smtp_quit(); }
			else {
				h_havecert = param & 1;
				if (h_havecert) put_file("control/servercert.pem", (const unsigned char *)"x", 1, 0);
				unsetenv("TCPLOCALPORT");
				for (int k = 1; k < nholes; k++) {
					if (holes[k].cls == 'U') h_auth = cstr(holes[k].p, holes[k].len);
					else if (holes[k].cls == 'N') databytes = strtoul((const char *)holes[k].p, NULL, 10);
					else { out_str(" BADCASE"); return; }
				}
				(void)smtp_ehlo();
				free(h_auth); h_auth = NULL;
			}
			free(xmitstat.helostr.s);
			xmitstat.helostr.s = NULL;
		} else if (is_name(&f[1], "smtploop")) {
			/* the real smtploop() of qsmtpd.c: greeting, then the client says nothing and the read times out */
			extern void h_smtploop(void);
			if (nholes < 1) { out_str(" BADCASE"); return; }
			heloname.s = h0; heloname.len = strlen(h0);
			unsetenv("BANNER");
			linenlen = 0; linein.len = 0; linein.s = lineinbuf; timeout = 1;
			if (setjmp(h_cleanup) == 0 && setjmp(h_die) == 0)
				h_smtploop();
		} else if (is_name(&f[1], "tls_out")) {
			extern int h_tls_out(const char *, const char *);
			if (nholes != 2) { out_str(" BADCASE"); return; }
			char *h1 = cstr(holes[1].p, holes[1].len);
			(void)h_tls_out(h0, h1);
			free(h1);
		} else if (is_name(&f[1], "tls_err")) {
			extern int h_tls_err(const char *);
			(void)h_tls_err("harness");
		} else if (is_name(&f[1], "smtp_data")) {
			extern size_t maxbytes;
			static struct recip rc1;
			rc1.to.s = "user@example.org"; rc1.to.len = strlen(rc1.to.s); rc1.ok = 1;
			TAILQ_INSERT_TAIL(&head, &rc1, entries);
			goodrcpt = 1; maxbytes = (size_t)-1;
			xmitstat.check2822 = 1; xmitstat.esmtp = 1; xmitstat.datatype = 0;
			xmitstat.mailfrom.s = "sender@example.net"; xmitstat.mailfrom.len = strlen(xmitstat.mailfrom.s);
			msgidhost = heloname;
			char *d = malloc(8192 + (h0 ? strlen(h0) * 2 : 0)); d[0] = 0;
			const char *ok = "Date: Thu, 1 Jan 2026 00:00:00 +0000\r\nFrom: a@example.net\r\n";
			switch (param) {
			case 0: if (!h0) { out_str(" BADCASE"); return; }
				sprintf(d, "%s x\r\n%s y\r\n\r\nbody\r\n.\r\n", h0, h0); break;
			case 1: strcpy(d, "From: a@example.net\r\n\r\nbody\r\n.\r\n"); break;
			case 2: strcpy(d, "Date: Thu, 1 Jan 2026 00:00:00 +0000\r\n\r\nbody\r\n.\r\n"); break;
			case 3: sprintf(d, "%sSubject: \xe4\r\n\r\nbody\r\n.\r\n", ok); break;
			case 4: sprintf(d, "%s\r\nb\xe4" "dy\r\nmore\r\n.\r\n", ok); break;
			case 5: strcpy(d, ok); for (int k = 0; k < 101; k++) strcat(d, "Received: from a by b\r\n"); strcat(d, "\r\nbody\r\n.\r\n"); break;
			case 6: sprintf(d, "%sDelivered-To: user@example.org\r\n\r\nbody\r\n.\r\n", ok); break;
			default: out_str(" BADCASE"); return;
			}
			r_stream = (unsigned char *)d; r_len = strlen(d); r_pos = 0; r_hold = 1;
			linenlen = 0; linein.len = 0; linein.s = lineinbuf; timeout = 1;
			(void)smtp_data();
			TAILQ_INIT(&head);
			r_stream = NULL; r_len = r_pos = 0;
			free(d);
		} else out_str(" BADCASE");
		free(h0);
	} else out_str(" BADCASE");
	userconf_free(&ds);
}

int main(void)
{
	int r = harness_main();
	/* the scratch directory of this run (children name it after their parent) */
	char cmd[128];
	snprintf(cmd, sizeof(cmd), "rm -rf /tmp/qv-c10s-%ld", (long)getpid());
	if (system(cmd) != 0) r = r;
	return r;
}

/* qsmtpd/qsmtpd.c, unchanged, for smtploop() (the greeting and the replies to broken command lines).  Its main() is renamed;
 * its conn_cleanup(), freedata() and dieerror() are renamed as well, so that every other translation unit keeps calling the
 * stand-ins of replysites_h.c (they end the case instead of the process); exit() ends the case too. */
#include <stdlib.h>
void h_exit(int rc) __attribute__((noreturn));
#define main qsmtpd_main
#define exit(x) h_exit(x)
#define conn_cleanup real_conn_cleanup
#define freedata real_freedata
#define dieerror real_dieerror
#include "qsmtpd/qsmtpd.c"
#undef conn_cleanup
#undef freedata
#undef dieerror
void h_smtploop(void) { smtploop(); }
#include "qsmtpd/child.c"

"""Whole-program harness for Qsmtpd with a TLS-capable scripted client (engine `tlssession`, property C17).

The server binary is the one of the `session` engine (harness/session/runner.py:build: all of qsmtpd/** and lib/*.c of the
working tree, ASan+UBSan, fake DNS, wrapped sleep/time/tarpit poll).  In addition a self-signed RSA certificate is generated
offline with the openssl CLI and installed as control/servercert.pem (certificate + key in one file, as find_servercert()
and tls_init() expect).

The client is python's ssl module over MemoryBIOs, so that this file keeps complete control over which bytes go onto the
socket and when.  All traffic is LOCK STEP: the next script item is acted upon only when the server has consumed everything
and is blocked in poll() on its input (also true while it sits inside SSL_accept()).

case line:  7e <cfg> <item> <item> ...          (hex fields; cfg = ascii "key=value;..." as for the session engine plus
                                                 cert=good|none|bad, certname=plain|ip|ipport: which of the names
                                                 find_servercert() tries carries the certificate, localip=long: with ip=v6
                                                 the local address is a 39-octet IPv6 address)
  item = 53 <bytes>   'S' segment: the bytes are sent on the current channel (clear text, or one TLS record once a
                          handshake succeeded).  Sent while the server waits for a ClientHello they are the "garbage
                          instead of a ClientHello".
         48           'H' do a TLS handshake (only if the server just said "220 ... ready for tls"; otherwise the client
                          stops the script here)
         42           'B' like H, but with a ClientHello the server must refuse (no shared cipher): a handshake failure
                          in which OpenSSL consumes exactly the ClientHello
         43           'C' half-close (shutdown(SHUT_WR)); must be the last item
result:     c<code> replies received in clear text, O after a 250 reply that announced STARTTLS, S when the handshake
            completed, t<code> replies received inside TLS, Q<envelope>/<message> per hand-off (date and cipher name
            masked), open | closed.
"""
import importlib.util, os, shutil, signal, socket, ssl, struct, subprocess, sys, tempfile, time
from concurrent.futures import ThreadPoolExecutor

HERE = os.path.dirname(os.path.abspath(__file__))
_spec = importlib.util.spec_from_file_location('session_runner_base', os.path.join(HERE, '..', 'session', 'runner.py'))
base = importlib.util.module_from_spec(_spec)
_spec.loader.exec_module(base)

READY = b'220 2.0.0 ready for tls\r\n'
LONG_LOCALIP = '2001:0db8:1111:2222:3333:4444:5555:6666'
CLIENT_ADDR = 'client@example.net'


def build(R, repo, builddir):
    h = base.build(R, repo, builddir)
    key, crt, pem = (os.path.join(builddir, n) for n in ('key.pem', 'crt.pem', 'servercert.pem'))
    if not os.path.exists(pem):
        rc, out = R.sh(['openssl', 'req', '-x509', '-newkey', 'rsa:2048', '-nodes', '-keyout', key, '-out', crt,
                        '-subj', '/CN=mail.example.org', '-days', '3650'], timeout=120)
        if rc != 0:
            raise RuntimeError('openssl req failed: ' + out[-2000:])
        rc, out = R.sh(['openssl', 'rsa', '-in', key, '-traditional', '-out', key + '.rsa'], timeout=60)
        if rc != 0:
            raise RuntimeError('openssl rsa failed: ' + out[-2000:])
        open(pem + '.tmp', 'wb').write(open(crt, 'rb').read() + open(key + '.rsa', 'rb').read())
        os.rename(pem + '.tmp', pem)
    h['pem'] = pem
    # a CA for client certificates (control/clientca.pem) and a client certificate whose emailAddress is listed in control/tlsclients
    ca, cakey, cc, cckey = (os.path.join(builddir, n) for n in ('clientca.crt', 'clientca.key', 'client.crt', 'client.key'))
    if not os.path.exists(cc):
        cmds = [['openssl', 'req', '-x509', '-newkey', 'rsa:2048', '-nodes', '-keyout', cakey, '-out', ca, '-subj', '/CN=Test Client CA', '-days', '3650'],
                ['openssl', 'req', '-newkey', 'rsa:2048', '-nodes', '-keyout', cckey, '-out', cc + '.csr', '-subj', '/CN=Client One/emailAddress=' + CLIENT_ADDR],
                ['openssl', 'x509', '-req', '-in', cc + '.csr', '-CA', ca, '-CAkey', cakey, '-CAcreateserial', '-out', cc + '.tmp', '-days', '3650']]
        for c in cmds:
            rc, out = R.sh(c, timeout=120)
            if rc != 0:
                raise RuntimeError('openssl failed: ' + out[-2000:])
        os.rename(cc + '.tmp', cc)
    h.update(clientca=ca, clientcert=cc, clientkey=cckey)
    return h


def parse_items(fields, R):
    items = []
    for x in fields:
        b = R.unhx(x)
        if not b:
            return None
        t = b[:1]
        if t == b'S' and len(b) > 1:
            items.append(('S', b[1:]))
        elif t in (b'H', b'B', b'C') and len(b) == 1:
            items.append((t.decode(), b''))
        else:
            return None
    if any(k == 'C' for k, _ in items[:-1]):
        return None
    return items


def clear_tokens(raw, tls=False):
    """reply codes of a byte stream; in clear text the handshake/alert records the server's OpenSSL wrote during a failed
    handshake are skipped (application data records are not: they show up as x tokens)"""
    toks = []
    p = 0
    offer = False
    while p < len(raw):
        if not tls and raw[p] in (0x15, 0x16, 0x14) and p + 5 <= len(raw) and raw[p + 1] == 3 and raw[p + 2] <= 4:
            n = struct.unpack('>H', raw[p + 3:p + 5])[0]
            p += 5 + n
            continue
        e = raw.find(b'\r\n', p)
        if e < 0:
            if raw[p:]:
                toks.append('x' + raw[p:p + 8].hex())
            break
        l = raw[p:e]
        p = e + 2
        if len(l) >= 4 and l[:3].isdigit() and l[3:4] == b' ':
            if l.upper().rstrip() == b'250 STARTTLS':
                offer = True
            toks.append(l[:3].decode())
            if offer:
                toks.append('O')
            offer = False
        elif len(l) >= 4 and l[:3].isdigit() and l[3:4] == b'-':
            if l.upper().rstrip() == b'250-STARTTLS':
                offer = True
        elif l:
            toks.append('x' + l[:8].hex())
    return toks


def mask_cipher(m):
    i = m.find(b' encrypted) ESMTPS')
    if i < 0:
        return m
    j = m.rfind(b'(', 0, i)
    if j < 0:
        return m
    return m[:j + 1] + b'CIPHER' + m[i:]


def run_case(h, R, line, idx):
    f = line.split()
    if len(f) < 2 or f[0] != '7e':
        return 'BADCASE'
    cfg = base.parse_cfg(R.unhx(f[1]).decode('latin-1'))
    cfg.setdefault('cert', 'good')
    items = parse_items(f[2:], R)
    if items is None:
        return 'BADCASE'
    d = tempfile.mkdtemp(prefix='c%d_' % idx, dir=os.path.join(h['builddir'], 'run'))
    try:
        base.make_tree(d, cfg)
        env = dict(R.RUNENV)
        if cfg['ip'] == 'v4':
            env.update(TCP6REMOTEIP='::ffff:192.0.2.1', TCP6LOCALIP='::ffff:192.0.2.2')
            localip = '192.0.2.2'
        else:
            env.update(TCP6REMOTEIP='2001:db8::1', TCP6LOCALIP='2001:db8::2')
            localip = '2001:db8::2'
            if cfg.get('localip') == 'long':         # an address as long as an uncompressed IPv6 address can be
                localip = LONG_LOCALIP
                env.update(TCP6LOCALIP=LONG_LOCALIP)
        # find_servercert() looks for servercert.pem.<ip>:<port>, servercert.pem.<ip>, servercert.pem
        certname = 'servercert.pem' + {'ip': '.' + localip, 'ipport': '.' + localip + ':' + cfg['port']}.get(cfg.get('certname', 'plain'), '')
        if cfg['cert'] == 'good':
            shutil.copy(h['pem'], os.path.join(d, 'control', certname))
        elif cfg['cert'] == 'bad':
            open(os.path.join(d, 'control', certname), 'w').write('this is not a certificate\n')
        # the third relay entitlement (tls_verify()): cfg tlsclients=1 / clientca=1 install control/tlsclients (the address of the
        # client certificate) / control/clientca.pem; cfg pha=1: the client offers TLS 1.3 post-handshake authentication;
        # cfg ccert=listed: it has the certificate to answer the request with
        if cfg.get('tlsclients') == '1':
            open(os.path.join(d, 'control', 'tlsclients'), 'w').write(CLIENT_ADDR + '\n')
        if cfg.get('clientca') == '1':
            shutil.copy(h['clientca'], os.path.join(d, 'control', 'clientca.pem'))
        env.update(TCPREMOTEPORT='1234', TCPLOCALPORT=cfg['port'], QMAILQUEUE=h['qq'], QQ_MSG=os.path.join(d, 'qq.msg'),
                   QQ_ENV=os.path.join(d, 'qq.env'), QQ_PLAN=os.path.join(d, 'qqplan'), QQ_COUNT=os.path.join(d, 'qqcount'))
        a, b = socket.socketpair()
        errf = open(os.path.join(d, 'stderr'), 'wb')
        argv = [h['exe']] + (['mail.example.org', h['cp'], '/bin/true'] if cfg['auth'] == '1' else [])      # auth_setup(): domain, checkpassword, subprogram
        p = subprocess.Popen(argv, stdin=b.fileno(), stdout=b.fileno(), stderr=errf, cwd=d, env=env, close_fds=True)
        b.close()
        a.setblocking(False)
        st = dict(clear=b'', tls=b'', closed=False, sslobj=None, inb=None, outb=None, hsraw=None, marks=[], garbled=False, dirty=None)

        def feed(data):
            """bytes that arrived from the server"""
            if st['sslobj'] is not None and st['hsraw'] is None:
                st['inb'].write(data)
                while True:
                    try:
                        x = st['sslobj'].read(65536)
                    except (ssl.SSLWantReadError, ssl.SSLZeroReturnError):
                        break                         # nothing more yet / close_notify from the server
                    except (ssl.SSLError, OSError):
                        if not st.get('halfclosed'):     # behind our own half-close (no close_notify sent) an alert is expected
                            st['garbled'] = True
                        break
                    if not x:
                        break
                    st['tls'] += x
                # what the client's TLS stack has to say on its own (the answer to a post-handshake certificate request) stays in
                # the outgoing BIO and travels in front of the next segment: sent at once it would race with the server's own progress
            elif st['hsraw'] is not None:
                st['hsraw'] += data
                st['inb'].write(data)
            else:
                st['clear'] += data

        def recv_some():
            """-> True if something happened (data or close)"""
            try:
                data = a.recv(65536)
            except BlockingIOError:
                return False
            except ConnectionResetError:
                st['closed'] = True
                return True
            if data == b'':
                st['closed'] = True
                return True
            feed(data)
            return True

        def pump(deadline):
            """until the server is blocked on its input with nothing in flight, or gone"""
            stable = 0
            while time.time() < deadline:
                if st['closed']:
                    return
                if recv_some():
                    stable = 0
                    continue
                if p.poll() is not None:
                    while not st['closed'] and recv_some():
                        pass
                    st['closed'] = True
                    return
                if base._idle(p.pid, a):
                    stable += 1
                    if stable >= 2:
                        return
                else:
                    stable = 0
                time.sleep(0.0003)
            raise TimeoutError()

        def send(data):
            try:
                a.setblocking(True)
                a.sendall(data)
                a.setblocking(False)
                return True
            except (BrokenPipeError, ConnectionResetError):
                st['closed'] = True
                return False

        def handshake(bad):
            """returns True when the handshake completed"""
            ctx = ssl.SSLContext(ssl.PROTOCOL_TLS_CLIENT)
            ctx.check_hostname = False
            ctx.verify_mode = ssl.CERT_NONE
            if cfg.get('pha') == '1':
                ctx.post_handshake_auth = True
            if cfg.get('ccert') == 'listed':
                ctx.load_cert_chain(h['clientcert'], h['clientkey'])
            if bad:
                # a ClientHello that an RSA-only server cannot answer
                ctx.maximum_version = ssl.TLSVersion.TLSv1_2
                ctx.set_ciphers('ECDHE-ECDSA-AES128-GCM-SHA256')
            st['inb'], st['outb'] = ssl.MemoryBIO(), ssl.MemoryBIO()
            st['sslobj'] = ctx.wrap_bio(st['inb'], st['outb'], server_hostname=None)
            st['hsraw'] = b''
            deadline = time.time() + 20
            ok = False
            while time.time() < deadline:
                try:
                    st['sslobj'].do_handshake()
                    ok = True
                except ssl.SSLWantReadError:
                    pass
                except (ssl.SSLError, OSError):
                    ok = False
                    out = st['outb'].read()
                    if out:
                        send(out)
                    break
                out = st['outb'].read()
                if out and not send(out):
                    break
                if ok:
                    break
                # wait for the server's flight
                got = False
                while time.time() < deadline and not got and not st['closed']:
                    got = recv_some()
                    if not got:
                        if p.poll() is not None:
                            st['closed'] = True
                        time.sleep(0.0003)
                if st['closed']:
                    break
            if ok:
                st['hsraw'] = None
                return True
            # failed: what the server sent since the handshake began is clear text (behind OpenSSL's alert record)
            st['marks'].append((len(st['clear']), 'F'))
            st['clear'] += st['hsraw']
            st['hsraw'] = None
            st['sslobj'] = None
            return False

        timed_out = False
        switched_at = None
        try:
            pump(time.time() + 20)
            for kind, data in items:
                if st['closed']:
                    break
                if kind == 'S':
                    if st['sslobj'] is not None:
                        st['sslobj'].write(data)
                        data = st['outb'].read()
                    elif st['clear'].endswith(READY) and st.get('hs_done_at') != len(st['clear']):
                        st['dirty'] = len(st['clear'])      # clear text while the server waits for a ClientHello
                    if not send(data):
                        break
                elif kind in ('H', 'B'):
                    if st['sslobj'] is not None or not st['clear'].endswith(READY) or st.get('hs_done_at') == len(st['clear']):
                        break                    # the server does not wait for a ClientHello: the client gives up
                    if st['dirty'] == len(st['clear']):
                        st['marks'].append((len(st['clear']), 'U'))   # the server sits on a partly read garbage prefix
                        break
                    st['hs_done_at'] = len(st['clear'])
                    if handshake(kind == 'B'):
                        switched_at = len(st['clear'])
                elif kind == 'C':
                    st['halfclosed'] = True
                    try:
                        a.shutdown(socket.SHUT_WR)
                    except OSError:
                        pass
                pump(time.time() + 20)
        except TimeoutError:
            timed_out = True
        state = 'closed' if st['closed'] else 'open'
        a.close()
        try:
            p.wait(timeout=10)
        except subprocess.TimeoutExpired:
            p.kill(); p.wait()
            timed_out = True
        errf.close()
        res = []
        last = 0
        for pos, mark in st['marks'] + [(len(st['clear']), None)]:
            for t in clear_tokens(st['clear'][last:pos]):
                res.append(t if t == 'O' or t.startswith('x') else 'c' + t)
            if mark:
                res.append(mark)
            last = pos
        if switched_at is not None:
            res.append('S')
            for t in clear_tokens(st['tls'], tls=True):
                res.append(t if t == 'O' or t.startswith('x') else 't' + t)
            if st['garbled']:
                res.append('X')

        def recs(path):
            r = []
            if os.path.exists(path):
                data = open(path, 'rb').read()
                i = 0
                while i < len(data):
                    n = int(data[i:i + 8], 16)
                    r.append(data[i + 9:i + 9 + n])
                    i += 9 + n + 1
            return r
        for e, m in zip(recs(env['QQ_ENV']), recs(env['QQ_MSG'])):
            res.append('Q' + R.hx(e) + '/' + R.hx(mask_cipher(base.mask_date(m, cfg['port'] == '587'))))
        stderr = open(os.path.join(d, 'stderr'), 'rb').read()
        if b'ERROR: AddressSanitizer' in stderr or b'runtime error' in stderr:
            return 'CRASH'
        if timed_out:
            return 'TIMEOUT ' + ' '.join(res)
        if p.returncode is not None and p.returncode < 0 and p.returncode != -signal.SIGPIPE:
            res.append('sig%d' % -p.returncode)
        res.append(state)
        return ' '.join(res)
    finally:
        shutil.rmtree(d, ignore_errors=True)


def run(h, R, cases, workers=16):
    os.makedirs(os.path.join(h['builddir'], 'run'), exist_ok=True)
    with ThreadPoolExecutor(workers) as ex:
        return list(ex.map(lambda ic: run_case(h, R, ic[1], ic[0]), enumerate(cases)))


if __name__ == '__main__':
    # manual use:  runner.py <repo> <case line>...     (builds into build/tlssession)
    sys.path.insert(0, os.path.join(HERE, '..', '..', 'tools'))
    os.environ.setdefault('VERIF_REPO', sys.argv[1])
    import runlib as R
    hh = build(R, sys.argv[1], os.path.join(R.BUILD, 'tlssession'))
    for r in run(hh, R, sys.argv[2:]):
        print(r)

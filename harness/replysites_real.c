/* Real translation units of the `replysites` engine, unchanged, from VERIF_REPO's working tree:
 * the command handlers, qsmtpd/syntax.c (wait_for_quit, check_max_bad_commands, sync_pipelining, hasinput),
 * the address parser and the user configuration backend. */
#include "qsmtpd/commands.c"
#include "qsmtpd/syntax.c"
#include "qsmtpd/addrparse.c"
#include "qsmtpd/addrsyntax.c"
#include "qsmtpd/xtext.c"
#include "qsmtpd/backends/user_vpopm/getfile.c"
#define user_exists real_user_exists
#include "qsmtpd/backends/user_vpopm/vpop.c"
#undef user_exists
#include "lib/control.c"
#include "lib/cdb.c"
#include "lib/mmap.c"
#include "lib/fmt.c"
#include "lib/dns_helpers.c"
#include "lib/match.c"

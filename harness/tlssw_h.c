/* C side of the `tlssw` engine (property C18): Qremote's connection set-up with the
 * STARTTLS upgrade, against scripted servers; OpenSSL is an oracle.
 *
 * Included unchanged from the repository's working tree (one translation unit, so
 * statics are reachable): lib/netio.c (net_read, readinput, netnwrite, net_writen,
 * drop_stale_input: the lineinn buffer shared by clear text and TLS), qremote/status.c,
 * qremote/reply.c (netget, dieerror), qremote/client.c (getrhost), qremote/greeting.c
 * (greeting, esmtp_check_extension), qremote/smtproutes.c (expect_tls, clientcertbuf,
 * free_smtproute_vals), qremote/starttlsr.c (tls_init), qremote/conn.c (tryconn),
 * qremote/conn_mx.c (connect_mx), qremote/qremote.c (main, quitmsg, net_conn_shutdown).
 * Redirected: read/poll/write/writev/close/exit/dup2/stat/openat/socket/bind/connect,
 * fstat/mmap/munmap of fd 0.
 * Oracles driven by the case (the places where OpenSSL touches the network or decides):
 * ssl_timeoutconn (handshake result), ssl_timeoutread/ssl_timeoutwrite (the in-TLS byte
 * stream), SSL_get_verify_result, SSL_CTX_load_verify_locations, SSL_dane_tlsa_add,
 * SSL_CTX_use_certificate_chain_file (records which file is asked for); dnstlsa.
 * All other OpenSSL calls (SSL_CTX_new, SSL_new, SSL_dane_enable, ...) are the real library
 * on an object that never sees the network.  Stubbed: MX lookup (the list is built from the
 * case), send_envelope (writes "MAIL FROM:<>" and returns an error), logging, loadlistfd
 * (no control/tlsclientciphers).
 *
 * case:   c8 <route> <n> then per MX (= one connection attempt)
 *           <flags> <tlsa> <hs> <verify> <npre> <npost> <ntls> <pre segments> <post segments> <tls segments>
 *         <route>  bit0: the route has its own client certificate (smtproutes.d clientcert=: expect_tls)
 *         <flags>  bit0 the MX has a name, bit1 control/tlshosts/<name>.pem exists, bit2 it loads,
 *                  bit3 the server stays silent when its clear text is used up (poll() times out instead of read() = 0),
 *                  bit4 dup2(socketd, 0) fails   (bits 3 and 4 are only used by the qrconn engine of C04)
 *         <tlsa>   pairs (cert_usage, result of SSL_dane_tlsa_add + 1)
 *         <hs>     0 handshake succeeds, 1 ETIMEDOUT, 2 ECONNRESET, 3 EPIPE, 4 EPROTO, 5 EIO
 *         <verify> value of SSL_get_verify_result (0 = X509_V_OK)
 *         pre = clear-text segments up to the handshake (what is left when the handshake starts is eaten by it),
 *         post = clear-text segments after a failed handshake, tls = results of SSL_read
 * result: a list of events, see Model/TlsSwitch.v
 * With ca (engine mxconn, property C20): the real tryconn() walks a list with several addresses per entry and connect() may fail:
 *         ca <route> <nservers> <mxspec> <headtlsa> then per SERVER the fields of c8/c9 (flags bit0 is ignored: the name is the entry's)
 *         <mxspec>   per MX entry [named 0|1][naddr][outcome of connect() for each address: 0 = established, else the errno];
 *                    the i-th established connection talks to server i; dnstlsa() is asked about the head entry (<headtlsa>)
 *         result as c9, followed by ATT<flat index of every address connect() was called for, one octet each>
 * With c9 instead of c8 (engine qrconn, property C04) the results of net_read() are left out of the event list and a
 * last token WF1/WF0 says whether the status stream is empty or a sequence of records "<letter of rshKZD>...\n\0".
 */
#include "hcommon.h"
#include <unistd.h>
#include <poll.h>
#include <time.h>
#include <sys/uio.h>
#include <sys/stat.h>
#include <sys/socket.h>
#include <arpa/inet.h>
#include <netinet/in.h>
#include <syslog.h>
#include <openssl/ssl.h>
#include <openssl/x509v3.h>

static ssize_t h_read(int fd, void *buf, size_t n);
static ssize_t h_write(int fd, const void *buf, size_t n);
static ssize_t h_writev(int fd, const struct iovec *v, int cnt);
static int h_poll(struct pollfd *p, nfds_t n, int t);
static int h_close(int fd);
static void h_exit(int code) __attribute__((noreturn));
static int h_fstat(int fd, struct stat *st);
static int h_stat(const char *fn, struct stat *st);
static void *h_mmap(void *a, size_t l, int prot, int fl, int fd, off_t off);
static int h_munmap(void *a, size_t l);
static int h_dup2(int a, int b);
static int h_openat(int d, const char *fn, int fl);
static int h_socket(int a, int b, int c);
static int h_bind(int s, const struct sockaddr *a, socklen_t l);
static int h_connect(int s, const struct sockaddr *a, socklen_t l);

#define read(a,b,c) h_read(a,b,c)
#define write(a,b,c) h_write(a,b,c)
#define writev(a,b,c) h_writev(a,b,c)
#define poll(a,b,c) h_poll(a,b,c)
#define close(a) h_close(a)
#define exit(a) h_exit(a)
#define fstat(a,b) h_fstat(a,b)
#define stat(a,b) h_stat(a,b)
#define mmap(a,b,c,d,e,f) h_mmap(a,b,c,d,e,f)
#define munmap(a,b) h_munmap(a,b)
#define dup2(a,b) h_dup2(a,b)
#define openat(a,b,c) h_openat(a,b,c)
#define socket(a,b,c) h_socket(a,b,c)
#define bind(a,b,c) h_bind(a,b,c)
#define connect(a,b,c) h_connect(a,b,c)

#include "lib/netio.c"

/* every result of net_read() is recorded; the library itself is not touched */
static int h_net_read(const int fatal);
#define net_read(f) h_net_read(f)

#include "qremote/status.c"
#include "qremote/reply.c"
#include "qremote/client.c"
#include "qremote/greeting.c"
#include "qremote/smtproutes.c"

/* OpenSSL as an oracle */
static long h_verify_result(const SSL *s);
static int h_load_verify(SSL_CTX *c, const char *f, const char *p);
static int h_tlsa_add(SSL *s, uint8_t u, uint8_t sel, uint8_t mt, const unsigned char *d, size_t l);
static int h_use_chain(SSL_CTX *c, const char *f);
static int h_use_key(SSL_CTX *c, const char *f, int t);
#undef SSL_get_verify_result
#define SSL_get_verify_result(s) h_verify_result(s)
#undef SSL_CTX_load_verify_locations
#define SSL_CTX_load_verify_locations(c,f,p) h_load_verify(c,f,p)
#undef SSL_dane_tlsa_add
#define SSL_dane_tlsa_add(s,u,sel,mt,d,l) h_tlsa_add(s,u,sel,mt,d,l)
#undef SSL_CTX_use_certificate_chain_file
#define SSL_CTX_use_certificate_chain_file(c,f) h_use_chain(c,f)
#undef SSL_CTX_use_RSAPrivateKey_file
#define SSL_CTX_use_RSAPrivateKey_file(c,f,t) h_use_key(c,f,t)

#include "qremote/starttlsr.c"
#define getmxlist repo_getmxlist
#include "qremote/conn.c"
#undef getmxlist
#include "qremote/conn_mx.c"
#define main qremote_main
#include "qremote/qremote.c"
#undef main
#undef net_read
#undef read
#undef write
#undef writev
#undef poll
#undef close
#undef exit
#undef fstat
#undef stat
#undef mmap
#undef munmap
#undef dup2
#undef openat
#undef socket
#undef bind
#undef connect

/* ---- things the included files expect from elsewhere ---- */
SSL *ssl;
string heloname;
struct in6_addr outgoingip, outgoingip6;
int controldir_fd = -1;
const char **globalconf;
off_t msgsize;
const char *msgdata;
const char *successmsg[8];
void log_write(int p, const char *s) { (void)p; (void)s; }
void log_writen(int p, const char **s) { (void)p; (void)s; }
void remote_common_setup(void) { }
const char *ssl_error(void) { return "sslerror"; }
const char *ssl_strerror(void) { return "sslstrerror"; }
void ssl_library_destroy(void) { }
void ssl_free(SSL *s) { SSL_free(s); }	/* the real one also sends the TLS shutdown alert */
int loadlistfd(int fd, char ***buf, checkfunc cf) { (void)fd; (void)cf; *buf = NULL; return 0; }	/* no tlsclientciphers */
/* reached only from smtproute()/getmxlist(), which the harness replaces */
int ask_dnsaaaa(const char *n, struct in6_addr **a) { (void)n; (void)a; abort(); }
int ask_dnsmx(const char *n, struct ips **a) { (void)n; (void)a; abort(); }
struct ips *in6_to_ips(struct in6_addr *a, unsigned int c, const unsigned int p) { (void)a; (void)c; (void)p; abort(); }
int matchdomain(const char *a, const size_t b, const char *c) { (void)a; (void)b; (void)c; abort(); }
int inet_pton_v4mapped(const char *s, struct in6_addr *a) { (void)s; (void)a; abort(); }
void freeips(struct ips *p) { (void)p; }
struct ips *filter_my_ips(struct ips *ipl) { return ipl; }
void sortmx(struct ips **p) { (void)p; }
void daneinfo_free(struct daneinfo *di, int cnt) { (void)di; (void)cnt; }
unsigned int need_recode(const char *b, off_t l) { (void)b; (void)l; return 0; }
void send_data(unsigned int r) { (void)r; abort(); }

/* ---- the case ---- */
#define MAXCONN 8
struct seglist { struct field *seg; int n, pos; size_t off; };
struct conncase {
	unsigned flags; struct field *tlsa; unsigned hs, verify;
	struct seglist pre, post, tls;
};
static struct conncase cc[MAXCONN];
static int c_n, c_cur;			/* number of MX entries, the one connected now (-1: none yet) */
static struct seglist *c_clear;		/* what read() delivers now */
static int c_tlsa_idx;			/* position in the TLSA list of the MX whose records were handed out */
static int c_tlsa_of;			/* which MX dnstlsa() was asked about in this iteration */
static struct daneinfo c_dane[16];
static unsigned char *sbuf; static size_t slen, scap;
static jmp_buf h_done;
static int h_code;
/* op ca */
#define CA_MAXENT 32
#define CA_MAXADDR 200
static int ca_mode, ca_nent, ca_naddr, ca_nsucc, ca_natt;
static struct field *ca_headtlsa;
static unsigned char ca_outcome[CA_MAXADDR], ca_att[4 * CA_MAXADDR];
static struct in6_addr ca_addr[CA_MAXADDR];
static struct ips ca_ent[CA_MAXENT];
static char ca_name[CA_MAXENT][32];
static unsigned char ca_named[CA_MAXENT], ca_cnt[CA_MAXENT];
static struct in6_addr mxaddr[MAXCONN];
static struct ips mxent[MAXCONN];
static char mxname[MAXCONN][32];
static const char routecert[] = "control/route.pem";

static size_t seg_left(struct seglist *s)
{
	size_t t = 0;
	for (int i = s->pos; i < s->n; i++) t += s->seg[i].len;
	return t - (s->pos < s->n ? s->off : 0);
}
/* skip exhausted and empty segments */
static void seg_norm(struct seglist *s)
{
	while (s->pos < s->n && s->off >= s->seg[s->pos].len) { s->pos++; s->off = 0; }
}
static size_t seg_take(struct seglist *s, void *buf, size_t n)
{
	seg_norm(s);
	if (s->pos >= s->n) return 0;
	size_t k = s->seg[s->pos].len - s->off;
	if (k > n) k = n;
	memcpy(buf, s->seg[s->pos].p + s->off, k);
	s->off += k;
	return k;
}
/* bytes of a partly read segment are there without waiting */
static int seg_partial(struct seglist *s) { return s->pos < s->n && s->off > 0 && s->off < s->seg[s->pos].len; }

static void ev_bytes(const char *tag, const void *p, size_t l) { out_str(" "); out_str(tag); out_hex(p, l); }
static const char *ename(int e)
{
	switch (e) {
	case EINVAL: return "EINVAL"; case E2BIG: return "E2BIG"; case ECONNRESET: return "ECONNRESET";
	case ETIMEDOUT: return "ETIMEDOUT"; case EPIPE: return "EPIPE"; case EPROTO: return "EPROTO"; case EIO: return "EIO";
	default: return "EOTHER";
	}
}

static int h_proj;			/* c9: net_read() results are not part of the observation */
static int h_net_read(const int fatal)
{
	int tlsmode = ssl != NULL;
	int r = (net_read)(fatal);
	int e = errno;
	if (h_proj) return r;
	size_t left = linenlen + (tlsmode ? (c_cur >= 0 ? seg_left(&cc[c_cur].tls) : 0) : (c_clear ? seg_left(c_clear) : 0));
	if (r == 0) {
		ev_bytes(tlsmode ? "Rt" : "Rc", linein.s, linein.len);
	} else {
		out_str(tlsmode ? " Et" : " Ec"); out_str(ename(e));
	}
	out_str(":"); out_int(left);
	errno = e;
	return r;
}

static ssize_t h_write(int fd, const void *buf, size_t n)
{
	if (fd == 1) {
		if (slen + n + 1 > scap) { scap = (slen + n + 1) * 2 + 256; sbuf = realloc(sbuf, scap); }
		memcpy(sbuf + slen, buf, n); slen += n;
	} else {
		ev_bytes("Wc", buf, n);
	}
	return n;
}
static ssize_t h_writev(int fd, const struct iovec *v, int cnt)
{
	ssize_t t = 0;
	for (int i = 0; i < cnt; i++) { h_write(fd, v[i].iov_base, v[i].iov_len); t += v[i].iov_len; }
	return t;
}
static int h_close(int fd) { (void)fd; return 0; }
static void h_exit(int code) { h_code = code; longjmp(h_done, 1); }
static int h_fstat(int fd, struct stat *st) { (void)fd; memset(st, 0, sizeof(*st)); st->st_size = 4; return 0; }
static void *h_mmap(void *a, size_t l, int prot, int fl, int fd, off_t off)
{
	(void)a; (void)prot; (void)fl; (void)fd; (void)off; (void)l;
	return (void *)"a\r\n";
}
static int h_munmap(void *a, size_t l) { (void)a; (void)l; return 0; }
static int h_dup2(int a, int b)
{
	(void)a;
	if (c_cur >= 0 && (cc[c_cur].flags & 0x10)) { errno = EMFILE; return -1; }
	return b;
}
static int h_openat(int d, const char *fn, int fl) { (void)d; (void)fn; (void)fl; errno = ENOENT; return -1; }
static int h_stat(const char *fn, struct stat *st)
{
	(void)fn;
	memset(st, 0, sizeof(*st));
	if (c_cur >= 0 && (cc[c_cur].flags & 2)) return 0;
	errno = ENOENT;
	return -1;
}
static int h_socket(int a, int b, int c) { (void)a; (void)b; (void)c; return 5; }
static int h_bind(int s, const struct sockaddr *a, socklen_t l) { (void)s; (void)a; (void)l; return 0; }
static int h_connect(int s, const struct sockaddr *a, socklen_t l)
{
	(void)s; (void)l;
	/* which MX is this? the harness gave every entry its own address */
	const struct sockaddr_in6 *s6 = (const struct sockaddr_in6 *)a;
	if (ca_mode) {
		int flat = s6->sin6_addr.s6_addr[15] - 1;
		if (ca_natt < (int)sizeof(ca_att)) ca_att[ca_natt++] = flat;
		if (flat < 0 || flat >= ca_naddr) { out_str(" BADADDR"); errno = EINVAL; return -1; }
		if (ca_outcome[flat] != 0) { errno = ca_outcome[flat]; return -1; }
		c_cur = ca_nsucc++;
		c_clear = &cc[c_cur].pre;
		out_str(" C"); out_int(c_cur);
		return 0;
	}
	c_cur = s6->sin6_addr.s6_addr[15] - 1;
	c_clear = &cc[c_cur].pre;
	out_str(" C"); out_int(c_cur);
	return 0;
}

static int h_poll(struct pollfd *p, nfds_t n, int t)
{
	(void)n;
	if (p->events & POLLOUT) { p->revents = POLLOUT; return 1; }
	(void)t;
	/* a silent server: nothing more comes, and the connection stays open */
	if (c_cur >= 0 && (cc[c_cur].flags & 8) && c_clear && seg_left(c_clear) == 0) return 0;
	p->revents = POLLIN;
	return 1;
}
static ssize_t h_read(int fd, void *buf, size_t n)
{
	(void)fd;
	return c_clear ? seg_take(c_clear, buf, n) : 0;
}

/* ---- the oracles ---- */
int ssl_timeoutconn(SSL *s, time_t t)
{
	(void)s; (void)t;
	static const int errs[] = { 0, ETIMEDOUT, ECONNRESET, EPIPE, EPROTO, EIO };
	unsigned h = cc[c_cur].hs;
	out_str(" H"); out_int(linenlen); out_str(":"); out_int(h);
	/* whatever clear text was still on its way is consumed by the handshake */
	c_clear = &cc[c_cur].post;
	return -errs[h];
}
int ssl_timeoutread(SSL *s, time_t t, char *b, const int l)
{
	(void)s; (void)t;
	size_t k = seg_take(&cc[c_cur].tls, b, l);
	return k ? (int)k : -ECONNRESET;
}
int ssl_timeoutwrite(SSL *s, time_t t, const char *b, const int l)
{
	(void)s; (void)t;
	ev_bytes("Wt", b, l);
	return l;
}
static long h_verify_result(const SSL *s) { (void)s; out_str(" V"); out_int(cc[c_cur].verify); return cc[c_cur].verify; }
static int h_load_verify(SSL_CTX *c, const char *f, const char *p) { (void)c; (void)f; (void)p; return (cc[c_cur].flags & 4) ? 1 : 0; }
static int h_tlsa_add(SSL *s, uint8_t u, uint8_t sel, uint8_t mt, const unsigned char *d, size_t l)
{
	(void)s; (void)sel; (void)mt; (void)l; (void)u;
	/* d points at the pair the record was built from */
	return (int)d[1] - 1;
}
static int h_use_chain(SSL_CTX *c, const char *f) { (void)c; out_str(strcmp(f, routecert) == 0 ? " K1" : " K0"); return 0; }
static int h_use_key(SSL_CTX *c, const char *f, int t) { (void)c; (void)f; (void)t; return 0; }

int dnstlsa(const char *host, const unsigned short port, struct daneinfo **out)
{
	(void)port;
	int k = -1;
	struct field *tl;
	if (ca_mode) {
		for (int i = 0; i < ca_nent; i++) if (strcmp(host, ca_name[i]) == 0) k = i;
		tl = ca_headtlsa;
		if (k != 0) { out_str(" T"); out_int(k); *out = NULL; return 0; }	/* only ever asked about the head */
	} else {
		for (int i = 0; i < c_n; i++) if (strcmp(host, mxname[i]) == 0) k = i;
		tl = k >= 0 ? cc[k].tlsa : NULL;
	}
	out_str(" T"); out_int(k);
	if (k < 0) { *out = NULL; return 0; }
	int cnt = tl->len / 2;
	if (cnt > 16) cnt = 16;
	for (int i = 0; i < cnt; i++) {
		c_dane[i].cert_usage = tl->p[2 * i];
		c_dane[i].selector = 0; c_dane[i].matching_type = 1;
		c_dane[i].data = tl->p + 2 * i; c_dane[i].datalen = 2;
	}
	*out = c_dane;
	return cnt;
}

void getmxlist(char *remhost, struct ips **mx)
{
	(void)remhost;
	if (ca_mode) {
		int flat = 0;
		for (int i = 0; i < ca_nent; i++) {
			snprintf(ca_name[i], sizeof(ca_name[i]), "mx%d.example.net", i);
			ca_ent[i].addr = &ca_addr[flat];
			ca_ent[i].name = ca_named[i] ? ca_name[i] : NULL;
			ca_ent[i].priority = 10 * (i + 1);
			ca_ent[i].count = ca_cnt[i];
			ca_ent[i].next = i + 1 < ca_nent ? &ca_ent[i + 1] : NULL;
			for (int j = 0; j < ca_cnt[i]; j++, flat++) {
				memset(&ca_addr[flat], 0, sizeof(ca_addr[flat]));
				ca_addr[flat].s6_addr[10] = 0xff; ca_addr[flat].s6_addr[11] = 0xff;
				ca_addr[flat].s6_addr[12] = 192; ca_addr[flat].s6_addr[13] = 1; ca_addr[flat].s6_addr[14] = 2;
				ca_addr[flat].s6_addr[15] = flat + 1;
			}
		}
		*mx = &ca_ent[0];
		return;
	}
	for (int i = 0; i < c_n; i++) {
		memset(&mxaddr[i], 0, sizeof(mxaddr[i]));
		mxaddr[i].s6_addr[10] = 0xff; mxaddr[i].s6_addr[11] = 0xff;
		mxaddr[i].s6_addr[12] = 192; mxaddr[i].s6_addr[14] = 2; mxaddr[i].s6_addr[15] = i + 1;
		snprintf(mxname[i], sizeof(mxname[i]), "mx%d.example.net", i);
		mxent[i].addr = &mxaddr[i];
		mxent[i].name = (cc[i].flags & 1) ? mxname[i] : NULL;
		mxent[i].priority = 10 * (i + 1);
		mxent[i].count = 1;
		mxent[i].next = i + 1 < c_n ? &mxent[i + 1] : NULL;
	}
	*mx = c_n ? &mxent[0] : NULL;
}

/* stands for the transmission of the message: qremote.c main() got a connection from connect_mx() */
int send_envelope(const unsigned int recodeflag, const char *sender, int rcptcount, char **rcpts)
{
	(void)recodeflag; (void)sender; (void)rcptcount; (void)rcpts;
	out_str(ssl ? " Mt" : " Mc"); out_int(smtpext);
	if (h_proj) {		/* how many reports exist when the envelope phase starts */
		int nrep = 0;
		for (size_t i = 0; i < slen; i++) nrep += sbuf[i] == 0;
		out_str(":"); out_int(nrep);
	}
	netwrite("MAIL FROM:<>\r\n");
	return 1;
}

static void run_case(int nf, struct field *f)
{
	ca_mode = nf >= 1 && f[0].len == 1 && f[0].p[0] == 0xca;
	if (ca_mode) {
		if (nf < 5 || f[1].len != 1 || f[2].len != 1 || f[2].p[0] > MAXCONN || f[4].len % 2) { out_str("BADCASE"); return; }
		/* the MX list */
		size_t o = 0; int succ = 0;
		ca_nent = 0; ca_naddr = 0; ca_nsucc = 0; ca_natt = 0;
		while (o < f[3].len) {
			if (o + 2 > f[3].len || ca_nent >= CA_MAXENT || f[3].p[o] > 1 || f[3].p[o + 1] < 1) { out_str("BADCASE"); return; }
			int cnt = f[3].p[o + 1];
			if (o + 2 + cnt > f[3].len || ca_naddr + cnt > CA_MAXADDR) { out_str("BADCASE"); return; }
			ca_named[ca_nent] = f[3].p[o]; ca_cnt[ca_nent] = cnt;
			for (int j = 0; j < cnt; j++) { ca_outcome[ca_naddr] = f[3].p[o + 2 + j]; succ += ca_outcome[ca_naddr] == 0; ca_naddr++; }
			ca_nent++;
			o += 2 + cnt;
		}
		if (ca_nent == 0 || succ > f[2].p[0]) { out_str("BADCASE"); return; }
		ca_headtlsa = &f[4];
	} else
	if (nf < 3 || f[0].len != 1 || (f[0].p[0] != 0xc8 && f[0].p[0] != 0xc9) || f[1].len != 1 || f[2].len != 1 || f[2].p[0] > MAXCONN || f[2].p[0] < 1) { out_str("BADCASE"); return; }
	c_n = f[2].p[0];
	h_proj = f[0].p[0] == 0xc9 || ca_mode;
	int at = ca_mode ? 5 : 3;
	for (int i = 0; i < c_n; i++) {
		if (nf < at + 7) { out_str("BADCASE"); return; }
		for (int j = 0; j < 7; j++) if (j != 1 && f[at + j].len != 1) { out_str("BADCASE"); return; }
		if (f[at + 1].len % 2 || f[at + 2].p[0] > 5) { out_str("BADCASE"); return; }
		cc[i].flags = f[at].p[0]; cc[i].tlsa = &f[at + 1]; cc[i].hs = f[at + 2].p[0]; cc[i].verify = f[at + 3].p[0];
		int a = f[at + 4].p[0], b = f[at + 5].p[0], c = f[at + 6].p[0];
		at += 7;
		if (nf < at + a + b + c) { out_str("BADCASE"); return; }
		cc[i].pre = (struct seglist){ f + at, a, 0, 0 }; at += a;
		cc[i].post = (struct seglist){ f + at, b, 0, 0 }; at += b;
		cc[i].tls = (struct seglist){ f + at, c, 0, 0 }; at += c;
	}
	if (at != nf) { out_str("BADCASE"); return; }
	c_cur = -1; c_clear = NULL; slen = 0;
	/* program state as at process start */
	linenlen = 0; linein.len = 0; memset(lineinbuf, 0, sizeof(lineinbuf));
	timeout = 1; socketd = -1; smtpext = 0; rhost = NULL; partner_fqdn = NULL; ssl = NULL; targetport = 25;
	remotesize = 0; auth_mechs = NULL;
	msgdata = MAP_FAILED; msgsize = 0;
	heloname.s = strdup("client.example.org"); heloname.len = strlen(heloname.s);
	/* what smtproute() leaves behind for a smtproutes.d file with clientcert= */
	free_smtproute_vals();
	if (f[1].p[0] & 1) {
		clientcertbuf = strdup(routecert);
		expect_tls = true;
		clientcertname = clientcertbuf;
		clientkeyname = clientcertbuf;
	}
	char *argv[] = { strdup("Qremote"), strdup("example.net"), strdup("sender@example.org"), strdup("rcpt@example.net"), NULL };
	h_code = -1;
	out_str("B");
	if (setjmp(h_done) == 0) {
		qremote_main(4, argv);
		out_str(" RETURNED");
	} else {
		out_str(" X"); out_int(h_code);
	}
	/* the reports: the first word of every NUL-terminated record */
	size_t i = 0;
	while (i < slen) {
		size_t e = i;
		while (e < slen && sbuf[e] != ' ' && sbuf[e] != '\n' && sbuf[e] != 0) e++;
		ev_bytes("S", sbuf + i, e - i);
		while (e < slen && sbuf[e] != 0) e++;
		i = e + 1;
	}
	if (h_proj) {
		int wf = slen == 0 || sbuf[slen - 1] == 0;
		for (size_t a = 0; wf && a < slen; ) {
			size_t e = a;
			while (sbuf[e] != 0) e++;
			if (e < a + 2 || !strchr("rshKZD", sbuf[a]) || sbuf[e - 1] != '\n') wf = 0;
			a = e + 1;
		}
		out_str(wf ? " WF1" : " WF0");
	}
	if (ca_mode) { out_str(" ATT"); out_hex(ca_att, ca_natt); }
}

int main(void) { return harness_main(); }
